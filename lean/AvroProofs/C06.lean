import AvroModel
import AvroProofs.Lemmas.RoundTrip
import AvroProofs.Lemmas.DecodeConforms
import AvroProofs.Lemmas.Prim
import AvroProofs.Lemmas.Frame
/-!
# C06 — a successfully decoded value conforms to the schema

The facts about the *model's* versions of third-party primitives (num-bigint signed bytes, uuid text
forms) that `decode_conforms_aux` needs are proved in `AvroProofs/Lemmas/Prim.lean` (`primFacts`).

The second half of the property - a truncated datum is reported as an error rather than completed
with invented values - is `truncated_datum_is_error`: it follows from the decoder being *framed*
(`decode_framed`: a successful decode consumed a prefix of its input and does not depend on what
follows it), proved by induction through every arm and loop of the decoder.
-/
namespace Avro.C06
open Avro

/-- Whenever the model decoder succeeds on **any** byte string, the value it returns conforms to
the schema (canonical representation, all lengths within the limit). -/
theorem decode_conforms (cfg : Cfg) (env : Names)
    (h1 : 1 ≤ cfg.szValue) (h2 : 1 ≤ cfg.szEntry) (hl : 36 ≤ cfg.lim) (henv : EnvOk env)
    (fuel : Nat) (s : Schema) (hs : wfS s = true) (bs : Bytes) (v : Value) (rest : Bytes)
    (h : decode cfg env fuel s bs = .ok (v, rest)) : Conforms cfg env s v :=
  decode_conforms_aux primFacts h1 h2 hl henv fuel s bs v rest hs h

/-- …hence it re-encodes, and the re-encoding decodes to the same value (with C01). -/
theorem decode_reencode (cfg : Cfg) (env : Names)
    (h1 : 1 ≤ cfg.szValue) (h2 : 1 ≤ cfg.szEntry) (hl : 36 ≤ cfg.lim) (hl63 : cfg.lim < 2^63)
    (henv : EnvOk env) (fuel : Nat) (s : Schema) (hs : wfS s = true) (bs : Bytes) (v : Value)
    (rest : Bytes) (h : decode cfg env fuel s bs = .ok (v, rest)) :
    ∃ bs' n, ∀ fuel', n ≤ fuel' →
      encode env fuel' s v = .ok bs' ∧ ∀ r, decode cfg env fuel' s (bs' ++ r) = .ok (v, r) :=
  conforms_rt hl63 (decode_conforms cfg env h1 h2 hl henv fuel s hs bs v rest h)

/-- **the decoder is framed**: whenever it succeeds it consumed a prefix `c` of its input, returns
the rest untouched, and returns the same value for `c` followed by anything else -/
theorem decode_framed (cfg : Cfg) (env : Names) (fuel : Nat) (s : Schema) (bs : Bytes) (v : Value) (rest : Bytes)
    (h : decode cfg env fuel s bs = .ok (v, rest)) :
    ∃ c, bs = c ++ rest ∧ ∀ q, decode cfg env fuel s (c ++ q) = .ok (v, q) :=
  framed_decode cfg env fuel s bs v rest h

/-- **a truncated datum is an error**: if a byte string is exactly one datum (decoding it leaves
nothing), then decoding any strict prefix of it fails - for every schema, every byte string (also a
non-canonical one: several blocks, negative counts), every cut point.  No value is invented. -/
theorem truncated_datum_is_error (cfg : Cfg) (env : Names) (fuel : Nat) (s : Schema) (bs : Bytes) (v : Value)
    (h : decode cfg env fuel s bs = .ok (v, [])) (p q : Bytes) (hp : bs = p ++ q) (hq : q ≠ []) :
    ∃ e, decode cfg env fuel s p = .error e :=
  truncated_is_error cfg env fuel s bs v h p q hp hq

/-- …in particular every strict prefix of what the encoder writes for a conforming value -/
theorem truncated_encoding_is_error (cfg : Cfg) (env : Names) (hl : cfg.lim < 2^63) (s : Schema) (v : Value)
    (hc : Conforms cfg env s v) :
    ∃ bs n, ∀ fuel, n ≤ fuel → encode env fuel s v = .ok bs ∧
      ∀ p q, bs = p ++ q → q ≠ [] → ∃ e, decode cfg env fuel s p = .error e := by
  obtain ⟨bs, n, H⟩ := conforms_rt hl hc
  refine ⟨bs, n, fun fuel hf => ?_⟩
  obtain ⟨he, hd⟩ := H fuel hf
  refine ⟨he, fun p q hp hq => ?_⟩
  have := hd []
  rw [List.append_nil] at this
  exact truncated_is_error cfg env fuel s bs v this p q hp hq

/-- the encodings of a schema's values are prefix-free: a datum that is a prefix of a datum is that datum -/
theorem prefix_free (cfg : Cfg) (env : Names) (fuel : Nat) (s : Schema) (a b : Bytes) (va vb : Value)
    (ha : decode cfg env fuel s a = .ok (va, [])) (hb : decode cfg env fuel s b = .ok (vb, []))
    (q : Bytes) (hab : b = a ++ q) : q = [] ∧ va = vb := by
  by_cases hq : q = []
  · subst hq
    rw [List.append_nil] at hab
    subst hab
    rw [ha] at hb
    simp at hb
    exact ⟨rfl, hb⟩
  · obtain ⟨e, he⟩ := truncated_is_error cfg env fuel s b vb hb a q hab hq
    rw [ha] at he
    simp at he

/-! non-vacuity: the decoder does succeed on non-canonical input (a negative block count with a
byte size, a second block), and the hypotheses are satisfiable -/
example : (match decode { lim := 1000 } [] 5 (.array .long) [3, 4, 2, 3, 2, 5, 0, 0xff] with
    | .ok (.array [.long 1, .long (-2), .long (-3)], [0xff]) => true
    | _ => false) = true := by decide
example : EnvOk [] := by intro n s h; simp [Names.find?] at h
example : wfS (.array .long) = true := by decide

end Avro.C06
