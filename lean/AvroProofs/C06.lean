import AvroModel
import AvroProofs.Lemmas.RoundTrip
import AvroProofs.Lemmas.DecodeConforms
import AvroProofs.Lemmas.Prim
/-!
# C06 — a successfully decoded value conforms to the schema

`PrimFacts` are statements about the *model's* versions of third-party primitives (num-bigint
signed bytes, uuid text forms); each of its fields is a closed statement about Lean functions.
They are hypotheses here (and listed as such in the evidence) until proved in
`AvroProofs/Lemmas/Prim.lean`.
-/
namespace Avro.C06
open Avro

/-- Whenever the model decoder succeeds on **any** byte string, the value it returns conforms to
the schema (canonical representation, all lengths within the limit). -/
theorem decode_conforms (cfg : Cfg) (env : Names)
    (h1 : 1 ≤ cfg.szValue) (h2 : 1 ≤ cfg.szEntry) (hl : 36 ≤ cfg.lim) (henv : EnvOk env)
    (fuel : Nat) (s : Schema) (hs : wfS s = true) (bs : Bytes) (v : Value) (rest : Bytes)
    (h : decode cfg env fuel s bs = .ok (v, rest)) : Conforms cfg env s v :=
  decode_conforms_aux primFacts h1 h2 hl henv fuel s bs v rest hs h

/-- …hence it re-encodes, and the re-encoding decodes to the same value (with C01). -/
theorem decode_reencode (cfg : Cfg) (env : Names)
    (h1 : 1 ≤ cfg.szValue) (h2 : 1 ≤ cfg.szEntry) (hl : 36 ≤ cfg.lim) (hl63 : cfg.lim < 2^63)
    (henv : EnvOk env) (fuel : Nat) (s : Schema) (hs : wfS s = true) (bs : Bytes) (v : Value)
    (rest : Bytes) (h : decode cfg env fuel s bs = .ok (v, rest)) :
    ∃ bs' n, ∀ fuel', n ≤ fuel' →
      encode env fuel' s v = .ok bs' ∧ ∀ r, decode cfg env fuel' s (bs' ++ r) = .ok (v, r) :=
  conforms_rt hl63 (decode_conforms cfg env h1 h2 hl henv fuel s hs bs v rest h)

/-! non-vacuity: the decoder does succeed on non-canonical input (a negative block count with a
byte size, a second block), and the hypotheses are satisfiable -/
example : (match decode { lim := 1000 } [] 5 (.array .long) [3, 4, 2, 3, 2, 5, 0, 0xff] with
    | .ok (.array [.long 1, .long (-2), .long (-3)], [0xff]) => true
    | _ => false) = true := by decide
example : EnvOk [] := by intro n s h; simp [Names.find?] at h
example : wfS (.array .long) = true := by decide

end Avro.C06
