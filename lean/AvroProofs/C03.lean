import AvroModel
import AvroProofs.Lemmas.Container
/-!
# C03 — container files return exactly the appended values for any writer history

`Writer.step` is the model of `writer::Writer` over a perfect sink; `readBlocks` the model of the
reader's block loop.  The abstract specification is the simplest possible one: *a log of the
encodings whose append returned `Ok` since the last `reset`* (`logStep`).
-/
namespace Avro.C03
open Avro

/-- An append that returns an error leaves no trace: the pending block and its value count are
untouched and the output changes at most by the file header. -/
theorem failed_append_no_trace (cfg : WCfg) (st : WState) (op : WOp)
    (hop : op = .appendEncodeError ∨ op = .appendRejected) :
    let st' := (Writer.step cfg st op).1
    (Writer.step cfg st op).2 = none ∧ st'.buffer = st.buffer ∧ st'.numValues = st.numValues ∧
    (st'.sink = st.sink ∨ (st.hasHeader = false ∧ st'.sink = st.sink ++ headerBytes cfg st)) := by
  rcases hop with rfl | rfl
  · by_cases hh : st.hasHeader = true
    · simp [Writer.step, writeHeader, hh]
    · have hf : st.hasHeader = false := by simpa using hh
      simp [Writer.step, writeHeader, hf]
  · simp [Writer.step]

/-- **Refinement.** For every history (any interleaving of appends, failing appends, flushes,
metadata, resets, finishing and reopening), the writer's state is explained by a ghost layout
`header ++ blocks`, a pending block, and the log of successfully appended encodings — nothing is
lost, duplicated or reordered across block boundaries. -/
theorem history_layout (cfg : WCfg) (marker : Bytes) (ops : List WOp)
    (hok : RunOk cfg { marker := marker } ops) :
    ∃ g : Ghost, Inv cfg (Writer.run cfg { marker := marker } ops) g ∧
      g.blocks.flatten ++ g.pending = ops.foldl logStep [] := by
  have h0 : Inv cfg ({ marker := marker } : WState) ⟨[], [], []⟩ :=
    ⟨by simp, by simp, by simp, by simp, by simp, by intro h; simp at h⟩
  obtain ⟨g, hg, ha⟩ := inv_run ops h0 hok
  exact ⟨g, hg, by simpa [Ghost.all] using ha⟩

/-- **Main theorem.** After any history followed by finishing the writer (`into_inner` or drop),
the output is `header ++ body` and reading `body` block by block yields exactly the values whose
append returned `Ok` since the last reset, in order, and ends cleanly.  `val` gives the value each
encoding denotes; the datum-level facts (every encoding decodes to its value whatever follows,
C01) are the hypotheses `hdec`/`hun`. -/
theorem history_read (wcfg : WCfg) (rcfg : Cfg) (marker : Bytes) (ops : List WOp)
    (f : Reader Value) (val : Bytes → Value)
    (hok : RunOk wcfg { marker := marker } ops)
    (hcodec : ∀ x, wcfg.codec.decompress (wcfg.codec.compress x) = .ok x)
    (hmarker : (Writer.run wcfg { marker := marker } (ops ++ [.finish])).marker.length = 16)
    (hdec : ∀ enc ∈ appended ops, ∀ rest, f (enc ++ rest) = .ok (val enc, rest))
    (hun : (∀ enc ∈ appended ops, enc ≠ []) ∨ (∀ enc ∈ appended ops, enc = []))
    (hl63 : rcfg.lim < 2^63)
    (hcount : (appended ops).length < 2^63)
    (hsize : ∀ x : Bytes, x.length ≤ (appended ops).flatten.length → (wcfg.codec.compress x).length ≤ rcfg.lim) :
    let st := Writer.run wcfg { marker := marker } (ops ++ [.finish])
    ∃ hdr body, st.sink = hdr ++ body ∧
      readBlocks rcfg wcfg.codec f st.marker (body.length + 1) body =
        ((ops.foldl logStep []).map val, .clean) := by
  intro st
  have hok' : RunOk wcfg { marker := marker } (ops ++ [.finish]) := RunOk_append ops _ _ hok trivial
  have h0 : Inv wcfg ({ marker := marker } : WState) ⟨[], [], []⟩ :=
    ⟨by simp, by simp, by simp, by simp, by simp, by intro h; simp at h⟩
  -- state before finishing, then the finish step flushes the pending block
  obtain ⟨g1, hg1, ha1⟩ := inv_run ops h0 hok
  obtain ⟨g2, hg2, ha2, hp2, _, _⟩ := inv_doFlush hg1
  have hst : st = (doFlush wcfg (Writer.run wcfg { marker := marker } ops)).1 := by
    show Writer.run wcfg { marker := marker } (ops ++ [.finish]) = _
    rw [run_append]; rfl
  rw [hst]
  have hlog : g2.blocks.flatten = ops.foldl logStep [] := by
    have : g2.all = ops.foldl logStep [] := by rw [ha2, ha1]; rfl
    simpa [Ghost.all, hp2] using this
  refine ⟨g2.hdr, g2.blocks.flatMap (blkBytes wcfg.codec _), hg2.sink, ?_⟩
  -- every block's items are among the appended encodings
  have hmem : ∀ b ∈ g2.blocks, ∀ e ∈ b, e ∈ appended ops := by
    intro b hb e he
    have : e ∈ g2.blocks.flatten := List.mem_flatten.mpr ⟨b, hb, he⟩
    rw [hlog] at this
    rcases log_subset ops [] e this with h | h
    · cases h
    · exact h
  -- translate the ghost blocks into reader items
  let toItems : List Bytes → Items := fun b => b.map (fun enc => (val enc, enc))
  have hpay : ∀ b : List Bytes, (toItems b).payload = b.flatten := by
    intro b; simp [toItems, Items.payload, Function.comp_def]
  have hvals : ∀ b : List Bytes, (toItems b).values = b.map val := by
    intro b; simp [toItems, Items.values, Function.comp_def]
  have hblk : ∀ b : List Bytes, blockOf wcfg.codec (doFlush wcfg (Writer.run wcfg { marker := marker } ops)).1.marker (toItems b)
      = blkBytes wcfg.codec (doFlush wcfg (Writer.run wcfg { marker := marker } ops)).1.marker b := by
    intro b; simp [blockOf, blkBytes, hpay, toItems]
  have hbody : g2.blocks.flatMap (blkBytes wcfg.codec (doFlush wcfg (Writer.run wcfg { marker := marker } ops)).1.marker)
      = (g2.blocks.map toItems).flatMap (blockOf wcfg.codec (doFlush wcfg (Writer.run wcfg { marker := marker } ops)).1.marker) := by
    rw [List.flatMap_map]; congr 1; funext b; exact (hblk b).symm
  have hm16 : (doFlush wcfg (Writer.run wcfg { marker := marker } ops)).1.marker.length = 16 := by
    rw [← hst]; exact hmarker
  -- sizes
  have hsl : (ops.foldl logStep []).Sublist (appended ops) := by simpa using log_sublist ops []
  have hsub : ∀ b ∈ g2.blocks, b.flatten.length ≤ (appended ops).flatten.length ∧ b.length ≤ (appended ops).length := by
    intro b hb
    constructor
    · have h1 := flatten_length_le_of_mem hb
      rw [hlog] at h1
      exact Nat.le_trans h1 (sublist_flatten_length hsl)
    · have h1 := length_le_of_mem hb
      rw [hlog] at h1
      exact Nat.le_trans h1 hsl.length_le
  have hall : ∀ its ∈ g2.blocks.map toItems, BlockOk rcfg wcfg.codec f its := by
    intro its hits
    obtain ⟨b, hb, rfl⟩ := List.mem_map.mp hits
    refine ⟨?_, ?_, ?_, hl63, ?_, ?_⟩
    · have := hg2.nonempty b hb
      simpa [toItems] using this
    · have := (hsub b hb).2; simp [toItems]; omega
    · rw [hpay]; exact hsize _ (hsub b hb).1
    · intro it hit rest
      obtain ⟨e, he, rfl⟩ := List.mem_map.mp hit
      exact hdec e (hmem b hb e he) rest
    · rcases hun with h | h
      · left; intro it hit; obtain ⟨e, he, rfl⟩ := List.mem_map.mp hit; exact h e (hmem b hb e he)
      · right; intro it hit; obtain ⟨e, he, rfl⟩ := List.mem_map.mp hit; exact h e (hmem b hb e he)
  have hfuel : (g2.blocks.map toItems).length <
      ((g2.blocks.map toItems).flatMap (blockOf wcfg.codec (doFlush wcfg (Writer.run wcfg { marker := marker } ops)).1.marker)).length + 1 := by
    have := flatMap_length_ge wcfg.codec (doFlush wcfg (Writer.run wcfg { marker := marker } ops)).1.marker g2.blocks
    rw [← hbody, List.length_map]; omega
  have hrd := readBlocks_ok rcfg wcfg.codec f _ hm16 hcodec (g2.blocks.map toItems) hall _ hfuel
  rw [← hbody] at hrd
  rw [hrd, ← hlog]
  congr 1
  simp only [List.flatMap_map, hvals]
  induction g2.blocks with
  | nil => simp
  | cons b bs ih => simp [ih]

end Avro.C03
