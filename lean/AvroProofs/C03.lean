import AvroModel
/-! # C03 — container files return exactly the appended values for any writer history -/
namespace Avro.C03
end Avro.C03
