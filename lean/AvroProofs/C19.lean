import AvroModel
import AvroModel.Settings
import AvroModel.Generated.Settings
/-!
# C19 — process-wide settings are first-set-wins, uniformly enforced and thread-safe

The theorems quantify over **every schedule** (every interleaving of any number of threads'
operations on one cell = every list of operations).
-/
namespace Avro.C19
open Avro

variable {α : Type}

/-- once a cell holds a value, no operation changes it -/
theorem step_keeps (c : OnceCell α) (w : α) (h : c.v = some w) (op : OnceOp α) :
    (c.step op).1.v = some w := by
  cases op <;> simp [OnceCell.step, h]

theorem run_keeps (ops : List (OnceOp α)) : ∀ (c : OnceCell α) (w : α), c.v = some w →
    (c.run ops).1.v = some w := by
  induction ops with
  | nil => intro c w h; exact h
  | cons op ops ih =>
    intro c w h
    simp only [OnceCell.run]
    exact ih _ w (step_keeps c w h op)

/-- what an operation reports when the cell already holds `w`: the value in force, or `Err(own
argument)` for a setter — never its own proposal as if it had won -/
def reportsInForce (w : α) : OnceOp α → OnceOut α → Prop
  | .getOrInit _, o => o = .value w
  | .set x, o => o = .setErr x

/-- pointwise: the i-th operation and the i-th report are related (and the lists have equal length) -/
def allReport (w : α) : List (OnceOp α) → List (OnceOut α) → Prop
  | [], [] => True
  | op :: ops, o :: os => reportsInForce w op o ∧ allReport w ops os
  | _, _ => False

theorem run_reports (ops : List (OnceOp α)) : ∀ (c : OnceCell α) (w : α), c.v = some w →
    allReport w ops (c.run ops).2 := by
  induction ops with
  | nil => intro c w h; trivial
  | cons op ops ih =>
    intro c w h
    simp only [OnceCell.run]
    refine ⟨?_, ih _ w (step_keeps c w h op)⟩
    cases op <;> simp [OnceCell.step, h, reportsInForce]

/-- **first-set-wins, for every schedule**: the first operation of the schedule fixes the value
(its own argument); the cell holds that value after every later operation, every later
`get_or_init` (setter-with-report or first use) reports it, and every later `set` fails with its own
argument. -/
theorem first_wins (first : OnceOp α) (rest : List (OnceOp α)) :
    let r := (OnceCell.run { v := none } (first :: rest))
    r.1.v = some first.arg ∧
    (match first with | .getOrInit x => r.2.head? = some (.value x) | .set _ => r.2.head? = some .setOk) ∧
    allReport first.arg rest r.2.tail := by
  intro r
  have hstep : ((OnceCell.step { v := none } first).1 : OnceCell α).v = some first.arg := by
    cases first <;> simp [OnceCell.step, OnceOp.arg]
  refine ⟨?_, ?_, ?_⟩
  · show ((OnceCell.run { v := none } (first :: rest)).1).v = _
    simp only [OnceCell.run]
    exact run_keeps rest _ _ hstep
  · cases first <;> simp [r, OnceCell.run, OnceCell.step]
  · show allReport _ rest (OnceCell.run { v := none } (first :: rest)).2.tail
    simp only [OnceCell.run, List.tail_cons]
    exact run_reports rest _ _ hstep

/-- the value never changes afterwards: any two prefixes of a schedule (of length ≥ 1) leave the
same value in the cell -/
theorem never_changes (first : OnceOp α) (mid tail : List (OnceOp α)) :
    (OnceCell.run { v := none } (first :: mid)).1.v =
    (OnceCell.run { v := none } (first :: (mid ++ tail))).1.v := by
  have h1 := (first_wins first mid).1
  have h2 := (first_wins first (mid ++ tail)).1
  rw [h1, h2]

/-- the limit in force is the one every decoder applies: `safe_len` accepts exactly the declared
lengths up to it (all limits, 0 and usize::MAX included) -/
theorem limit_enforced (lim n : Nat) : (safeLen lim n = .ok n ↔ n ≤ lim) ∧ (n > lim → safeLen lim n = .error .allocLimit) := by
  unfold safeLen
  constructor
  · split <;> simp_all
  · intro h; have : ¬ n ≤ lim := by omega
    simp [this]

/-! ### instances re-checked against the current sources on every run (translator) -/

/-- every read of the allocation limit goes through the one cell with the one documented default
(the deprecated public wrapper in `lib.rs` forwards its caller's proposal) -/
theorem uniform_limit :
    Generated.limitReads.all (fun r =>
      r.2.2 == "DEFAULT_MAX_ALLOCATION_BYTES" || (r.1 == "avro/src/lib.rs" && r.2.2 == "num_bytes")) = true := by
  decide

/-- there is exactly one cell per setting (no second, separately initialised copy of a setting) -/
theorem one_cell_per_setting :
    Generated.onceCells.map Prod.fst =
      ["ENUM_SYMBOL_NAME_VALIDATOR_ONCE", "MAX_ALLOCATION_BYTES", "NAMESPACE_VALIDATOR_ONCE", "NAME_VALIDATOR_ONCE",
       "RECORD_FIELD_NAME_VALIDATOR_ONCE", "SCHEMATA_COMPARATOR_ONCE", "SERDE_HUMAN_READABLE"] := by decide

/-- …and no other write-once cell that holds a setting anywhere in the crate, module-level or local to a
function: the `OnceLock` statics holding a number, a flag or a boxed trait object are exactly these seven.  (Cells that
cache a computed value - the compiled name regexes, the CRC table - are not settings and are not pinned: a new cache
does not touch the property.) -/
theorem no_other_cell :
    (Generated.onceCellSites.filter (fun c => c.2.2 == "setting")).map (fun c => (c.1, c.2.1)) =
      [("ENUM_SYMBOL_NAME_VALIDATOR_ONCE", "avro/src/validator.rs"), ("MAX_ALLOCATION_BYTES", "avro/src/util.rs"),
       ("NAMESPACE_VALIDATOR_ONCE", "avro/src/validator.rs"), ("NAME_VALIDATOR_ONCE", "avro/src/validator.rs"),
       ("RECORD_FIELD_NAME_VALIDATOR_ONCE", "avro/src/validator.rs"), ("SCHEMATA_COMPARATOR_ONCE", "avro/src/schema_equality.rs"),
       ("SERDE_HUMAN_READABLE", "avro/src/util.rs")] := by decide

/-- a pure read of a cell (`OnceLock::get`, a non-initialising getter) changes nothing and, at any point of any
schedule, sees either nothing (no operation yet) or the first operation's value - never a loser's proposal -/
theorem peek_sees_winner (ops : List (OnceOp α)) :
    (OnceCell.run ({ v := none } : OnceCell α) ops).1.v = (ops.head?).map OnceOp.arg := by
  cases ops with
  | nil => rfl
  | cons first rest => simpa using (first_wins first rest).1

/-- the cells are only ever touched through the two atomic state-changing operations of the model
(`get_or_init`, `set`) and the pure read `get` (see `peek_sees_winner`) — no `take`, no `get_mut`, nothing that could
replace a value once set -/
theorem atomic_ops_only :
    Generated.onceCells.all (fun c => c.2.all (fun m => m == "get_or_init" || m == "set" || m == "get")) = true := by decide

/-- non-vacuity: three threads race `max_allocation_bytes(4096)`, a first use with the default, and
`max_allocation_bytes(1)`; the first wins -/
example : (OnceCell.run ({ v := none } : OnceCell Nat) [.getOrInit 4096, .getOrInit 536870912, .getOrInit 1]).2
    = [.value 4096, .value 4096, .value 4096] := by decide

end Avro.C19
