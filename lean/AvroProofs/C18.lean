import AvroModel
import AvroProofs.Lemmas.Rabin
import AvroProofs.Lemmas.RoundTrip
/-!
# C18 — single-object messages carry the spec header and reject foreign messages
-/
namespace Avro.C18
open Avro

/-- the constant in `rabin.rs` (re-extracted on every run) is the specification's `EMPTY` -/
theorem rabinEmpty_is_spec : Generated.rabinEmpty = 0xC15D213AA4D7A795 := by decide

/-- the marker bytes and the byte order read off `headers.rs` are the specification's -/
theorem marker_is_spec : Generated.singleObjectMarker = [0xC3, 0x01] ∧
    Generated.singleObjectFingerprintOrder = [0, 1, 2, 3, 4, 5, 6, 7] := by decide

theorem leBytes8_getD (n : Nat) : (List.range 8).map (fun i => (leBytes 8 n).getD i 0) = leBytes 8 n := by
  have h : (leBytes 8 n).length = 8 := leBytes_length 8 n
  match hl : leBytes 8 n, h with
  | [a, b, c, d, e, f, g, h'], _ => rfl

/-- **header**: `C3 01` followed by the 8-byte little-endian CRC-64-AVRO (bit-serial definition)
of the canonical form -/
theorem header_spec (pcf : Bytes) :
    soHeader pcf = [0xC3, 0x01] ++ leBytes 8 (crc64Avro pcf).toNat := by
  unfold soHeader rabinDigest
  rw [rabin_eq_crc64]
  have h1 : Generated.singleObjectMarker.map UInt8.ofNat = [0xC3, 0x01] := by decide
  have h2 : Generated.singleObjectFingerprintOrder = List.range 8 := by decide
  simp only [h1, h2]
  rw [leBytes8_getD]

theorem header_length (pcf : Bytes) : (soHeader pcf).length = 10 := by
  rw [header_spec]; simp [leBytes_length]

/-- **writer invariant**: whatever happens in a call (value rejected, encoder fails, sink fails,
success) the buffer holds exactly the header again afterwards … -/
theorem write_restores (w : SoWriter) (enc : Option Bytes) (sinkOk : Bool) :
    (w.write enc sinkOk).1.buffer = w.buffer := by
  unfold SoWriter.write
  simp only []
  split
  · rfl
  · cases enc with
    | none => simp
    | some e => cases sinkOk <;> simp

/-- … so for **every history** of calls on one writer, every successful call emits exactly
`header ++ datum` of *its own* value, independently of all earlier calls. -/
theorem so_history (pcf : Bytes) (hist : List (Option Bytes × Bool)) (e : Bytes) :
    let w0 : SoWriter := { buffer := soHeader pcf }
    let w := hist.foldl (fun w c => (w.write c.1 c.2).1) w0
    w.write (some e) true = ({ buffer := soHeader pcf }, soHeader pcf ++ e, some (10 + e.length)) := by
  intro w0 w
  have hgen : ∀ (hist : List (Option Bytes × Bool)) (u : SoWriter),
      (hist.foldl (fun w c => (w.write c.1 c.2).1) u).buffer = u.buffer := by
    intro hist
    induction hist with
    | nil => intro u; rfl
    | cons c cs ih =>
      intro u
      simp only [List.foldl_cons]
      rw [ih, write_restores]
  have hb : w.buffer = soHeader pcf := hgen hist w0
  have hl := header_length pcf
  unfold SoWriter.write
  simp only [hb, hl]
  have : ¬ (10 < 10 ∨ 20 < 10) := by omega
  simp only [this, if_false, if_true]
  simp [hl]

/-- a successful message is independently decodable: the reader returns the value (C01) -/
theorem message_roundtrip (cfg : Cfg) (env : Names) (hl : cfg.lim < 2^63) (s : Schema) (v : Value)
    (hc : Conforms cfg env s v) (pcf : Bytes) :
    ∃ e n, ∀ fuel, n ≤ fuel → encode env fuel s v = .ok e ∧
      ∀ rest, soRead cfg env fuel s (soHeader pcf) (soHeader pcf ++ e ++ rest) = .ok (v, rest) := by
  obtain ⟨e, n, H⟩ := conforms_rt hl hc
  refine ⟨e, n, fun fuel hf => ⟨(H fuel hf).1, ?_⟩⟩
  intro rest
  unfold soRead
  rw [List.append_assoc, takeExact_append]
  simp [(H fuel hf).2 rest]

/-- **foreign messages**: a header that differs from the expected one (in any bit) is rejected
and nothing is decoded … -/
theorem reader_rejects (cfg : Cfg) (env : Names) (fuel : Nat) (s : Schema) (expected h rest : Bytes)
    (hlen : h.length = expected.length) (hne : h ≠ expected) :
    soRead cfg env fuel s expected (h ++ rest) = .error .mismatch := by
  unfold soRead
  rw [takeExact_append' expected.length h rest hlen]
  simp [hne]

/-- … and a message shorter than the header is an error -/
theorem reader_short (cfg : Cfg) (env : Names) (fuel : Nat) (s : Schema) (expected bs : Bytes)
    (h : bs.length < expected.length) : soRead cfg env fuel s expected bs = .error .eof := by
  unfold soRead
  have : ∀ (n : Nat) (bs : Bytes), bs.length < n → takeExact n bs = .error .eof := by
    intro n
    induction n with
    | zero => intro bs h; omega
    | succ n ih =>
      intro bs h
      cases bs with
      | nil => simp [takeExact]
      | cons x xs => simp only [takeExact]; rw [ih xs (by simp at h; omega)]
  rw [this _ _ h]

/-- the crate's documented test vector, evaluated in the kernel -/
example : rabinDigest "hello world".toUTF8.toList = [0x60, 0x33, 0x5b, 0xa6, 0xd0, 0x41, 0x55, 0x28] := by decide +kernel

end Avro.C18
