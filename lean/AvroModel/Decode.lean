import AvroModel.Varint
import AvroModel.Prim
import AvroModel.Schema
/-
Model of `avro/src/decode.rs::decode_internal`.

`decode` recurses on `fuel` (decremented on every recursive call, also through `Schema::Ref`);
the list-shaped loops are ordinary higher-order helpers (`decodeN`, `blockLoop`,
`decodeFieldsWith`) that receive the already fuel-decremented recursive call as a function, so
every definition is structural and kernel-reducible.

`Cfg` carries the allocation limit in force (`max_allocation_bytes`) and the two `size_of`
constants `safe_collection_len::<T>` multiplies by (reported by the harness from the real build).
-/
namespace Avro

structure Cfg where
  lim : Nat
  szValue : Nat := 56
  szEntry : Nat := 80
  deriving Repr, Inhabited

abbrev Reader (α : Type) := Bytes → Except Err (α × Bytes)

/-- read `n` items with `f` (the `for _ in 0..len` loops); accumulator version so that the
compiled driver runs it as a loop. -/
def decodeN {α : Type} (f : Reader α) : Nat → List α → Bytes → Except Err (List α × Bytes)
  | 0, acc, bs => .ok (acc.reverse, bs)
  | n+1, acc, bs =>
    match f bs with
    | .error e => .error e
    | .ok (v, r) => decodeN f n (v :: acc) r

/-- `HashMap::insert`: overwrite an existing key, else add. -/
def mapInsert (es : List (Bytes × Value)) (k : Bytes) (v : Value) : List (Bytes × Value) :=
  match es with
  | [] => [(k, v)]
  | (k', v') :: rest => if k' = k then (k, v) :: rest else (k', v') :: mapInsert rest k v

/-- the `loop { let len = decode_seq_len(..)?; if len == 0 {break}; … }` of arrays: `bfuel`
bounds the number of blocks (every block header consumes at least one byte, so
`bs.length + 1` always suffices). -/
def arrayLoop (cfg : Cfg) (f : Reader Value) : Nat → List Value → Bytes → Except Err (List Value × Bytes)
  | 0, _, _ => .error .fuel
  | bfuel+1, acc, bs =>
    match decSeqLen cfg.lim bs with
    | .error e => .error e
    | .ok (len, r) =>
      if len = 0 then .ok (acc, r)
      else if acc.length + len ≥ 2^64 then .error .overflow
      else match safeCollectionLen cfg.lim cfg.szValue (acc.length + len) with
        | .error e => .error e
        | .ok _ =>
          match decodeN f len [] r with
          | .error e => .error e
          | .ok (items, r') => arrayLoop cfg f bfuel (acc ++ items) r'

def mapLoop (cfg : Cfg) (f : Reader (Bytes × Value)) : Nat → List (Bytes × Value) → Bytes →
    Except Err (List (Bytes × Value) × Bytes)
  | 0, _, _ => .error .fuel
  | bfuel+1, acc, bs =>
    match decSeqLen cfg.lim bs with
    | .error e => .error e
    | .ok (len, r) =>
      if len = 0 then .ok (acc, r)
      else if acc.length + len ≥ 2^64 then .error .overflow
      else match safeCollectionLen cfg.lim cfg.szEntry (acc.length + len) with
        | .error e => .error e
        | .ok _ =>
          match decodeN f len [] r with
          | .error e => .error e
          | .ok (entries, r') =>
            mapLoop cfg f bfuel (entries.foldl (fun m kv => mapInsert m kv.1 kv.2) acc) r'

def decodeFieldsWith (f : Schema → Reader Value) :
    List (FieldMeta × Schema) → Bytes → Except Err (List (Bytes × Value) × Bytes)
  | [], bs => .ok ([], bs)
  | (m, s) :: rest, bs =>
    match f s bs with
    | .error e => .error e
    | .ok (v, r) =>
      match decodeFieldsWith f rest r with
      | .error e => .error e
      | .ok (vs, r') => .ok ((m.name, v) :: vs, r')

/-- the `Schema::Bytes` arm: `decode_len`, `vec![0; len]`, `read_exact`. -/
def decBytes (lim : Nat) (bs : Bytes) : Except Err (Bytes × Bytes) :=
  match decLen lim bs with
  | .error e => .error e
  | .ok (len, r) => takeExact len r

/-- the `Schema::String` arm. -/
def decString (lim : Nat) (bs : Bytes) : Except Err (Bytes × Bytes) :=
  match decBytes lim bs with
  | .error e => .error e
  | .ok (b, r) => if validUtf8 b then .ok (b, r) else .error .badUtf8

/-- the `Schema::Fixed` arm (with the `safe_len(size)` guard). -/
def decFixed (lim size : Nat) (bs : Bytes) : Except Err (Bytes × Bytes) :=
  match safeLen lim size with
  | .error e => .error e
  | .ok _ => takeExact size bs

/-- `deserialize_big_decimal` on the already extracted byte string. -/
def deserBigDecimal (lim : Nat) (b : Bytes) : Except Err (Int × Int) :=
  match decBytes lim b with
  | .error e => .error e
  | .ok (mag, r) =>
    match decLong r with
    | .error e => .error e
    | .ok (scale, _) => .ok (fromSignedBE mag, scale)

/-- one map entry: the key is decoded as a `string`, then the value. -/
def decEntryWith (lim : Nat) (f : Reader Value) : Reader (Bytes × Value) :=
  fun b => match decString lim b with
    | .error e => .error e
    | .ok (k, r) => match f r with
      | .ok (v, r') => .ok ((k, v), r')
      | .error e => .error e

/-- `decode_internal`. -/
def decode (cfg : Cfg) (env : Names) : Nat → Schema → Reader Value
  | 0, _, _ => .error .fuel
  | fuel+1, s, bs =>
    match s with
    | .null => .ok (.null, bs)
    | .boolean =>
      match bs with
      | [] => .error .eof
      | b :: r => if b = 0 then .ok (.boolean false, r) else if b = 1 then .ok (.boolean true, r)
                  else .error .badBool
    | .int => match decInt bs with | .ok (n, r) => .ok (.int n, r) | .error e => .error e
    | .date => match decInt bs with | .ok (n, r) => .ok (.date n, r) | .error e => .error e
    | .timeMillis => match decInt bs with | .ok (n, r) => .ok (.timeMillis n, r) | .error e => .error e
    | .long => match decLong bs with | .ok (n, r) => .ok (.long n, r) | .error e => .error e
    | .longL k => match decLong bs with | .ok (n, r) => .ok (.longL k n, r) | .error e => .error e
    | .float =>
      match takeExact 4 bs with
      | .ok (b, r) => .ok (.float (UInt32.ofNat (ofLeBytes b)), r)
      | .error e => .error e
    | .double =>
      match takeExact 8 bs with
      | .ok (b, r) => .ok (.double (UInt64.ofNat (ofLeBytes b)), r)
      | .error e => .error e
    | .bytes => match decBytes cfg.lim bs with | .ok (b, r) => .ok (.bytes b, r) | .error e => .error e
    | .string => match decString cfg.lim bs with | .ok (b, r) => .ok (.string b, r) | .error e => .error e
    | .fixed _ size =>
      match decFixed cfg.lim size bs with
      | .ok (b, r) => .ok (.fixed size b, r)
      | .error e => .error e
    | .decimal _ _ (.fixed _ size) =>
      match decFixed cfg.lim size bs with
      | .ok (b, r) => .ok (.decimal (fromSignedBE b) b.length, r)
      | .error e => .error e
    | .decimal _ _ .bytes =>
      match decBytes cfg.lim bs with
      | .ok (b, r) => .ok (.decimal (fromSignedBE b) b.length, r)
      | .error e => .error e
    | .bigDecimal =>
      match decBytes cfg.lim bs with
      | .error e => .error e
      | .ok (b, r) =>
        match deserBigDecimal cfg.lim b with
        | .ok (u, sc) => .ok (.bigDecimal u sc, r)
        | .error e => .error e
    | .uuidString =>
      match decString cfg.lim bs with
      | .error e => .error e
      | .ok (b, r) => match uuidParse b with
        | some u => .ok (.uuid u, r)
        | none => .error .badUuid
    | .uuidBytes =>
      match decBytes cfg.lim bs with
      | .error e => .error e
      | .ok (b, r) => if b.length = 16 then .ok (.uuid b, r) else .error .badUuid
    | .uuidFixed _ size =>
      match decFixed cfg.lim size bs with
      | .error e => .error e
      | .ok (b, r) => if size ≠ 16 then .error .fixedSize else .ok (.uuid b, r)
    | .duration _ size =>
      if size = 12 then
        match takeExact 12 bs with
        | .error e => .error e
        | .ok (b, r) => .ok (.duration (ofLeBytes (b.take 4)) (ofLeBytes ((b.drop 4).take 4))
                              (ofLeBytes (b.drop 8)), r)
      else .error .fixedSize
    | .array inner =>
      match arrayLoop cfg (decode cfg env fuel inner) (bs.length + 1) [] bs with
      | .ok (items, r) => .ok (.array items, r)
      | .error e => .error e
    | .map inner =>
      match mapLoop cfg (decEntryWith cfg.lim (decode cfg env fuel inner)) (bs.length + 1) [] bs with
      | .ok (es, r) => .ok (.map es, r)
      | .error e => .error e
    | .union branches =>
      match decLong bs with
      | .error e => .error e
      | .ok (idx, r) =>
        if idx < 0 then .error .badIndex
        else match branches[idx.toNat]? with
          | none => .error .badIndex
          | some b => match decode cfg env fuel b r with
            | .ok (v, r') => .ok (.union (idx.toNat % 2^32) v, r')
            | .error e => .error e
    | .record _ fields =>
      match decodeFieldsWith (decode cfg env fuel) fields bs with
      | .ok (fs, r) => .ok (.record fs, r)
      | .error e => .error e
    | .enum _ syms _ =>
      match decInt bs with
      | .error e => .error e
      | .ok (i, r) =>
        if i < 0 then .error .badIndex
        else match syms[i.toNat]? with
          | some sym => .ok (.enum i.toNat sym, r)
          | none => .error .badIndex
    | .ref n =>
      match env.find? n with
      | some s' => decode cfg env fuel s' bs
      | none => .error .schema

end Avro
