import AvroModel.Schema
/-
Model of `schema_compatibility.rs`: `Checker::inner_full_match_schemas` as a pure function of the
two schema trees.  The pointer-keyed memo table of the crate only caches results of this pure
function (it is filled after a pair has been computed), so it is not modelled; `none` stands for
every `CompatibilityError`.
-/
namespace Avro

inductive Compat | full | part
  deriving DecidableEq, Repr

/-- `BitAndAssign for Compatibility` -/
def Compat.and : Compat → Compat → Compat
  | .full, .full => .full
  | _, _ => .part

/-- `Name::name()`: the part after the last dot of a full name -/
def unqual (n : Bytes) : Bytes := (n.reverse.takeWhile (· != 46)).reverse

/-- `Schema::name()` -/
def Schema.cname? : Schema → Option Bytes
  | .ref n | .record n _ | .enum n _ _ | .fixed n _ | .decimal _ _ (.fixed n _) | .uuidFixed n _ | .duration n _ => some n
  | _ => none

/-- the size of a fixed, or of a logical type stored in a fixed -/
def Schema.fixedSize? : Schema → Option Nat
  | .fixed _ n | .decimal _ _ (.fixed _ n) | .uuidFixed _ n | .duration _ n => some n
  | _ => none

def Schema.isIntLike : Schema → Bool
  | .int | .date | .timeMillis => true
  | _ => false

def Schema.isLongLike : Schema → Bool
  | .long | .longL _ => true
  | _ => false

/-- bytes, string and the logical types stored in them -/
def Schema.isBytesLike : Schema → Bool
  | .bytes | .string | .bigDecimal | .uuidString | .uuidBytes | .decimal _ _ .bytes => true
  | _ => false

def Schema.isFloat : Schema → Bool
  | .float => true
  | _ => false

def Schema.isDouble : Schema → Bool
  | .double => true
  | _ => false

def Schema.isUuid : Schema → Bool
  | .uuidString | .uuidBytes | .uuidFixed _ _ => true
  | _ => false

/-- verdict of a writer union against a reader union, from the table of per-pair verdicts
(one row per writer branch) -/
def unionUnionVerdict (rows : List (List (Option Compat))) : Option Compat :=
  if rows.all (fun row => row.any (· == some .full)) then some .full
  else if rows.any (fun row => row.any (·.isSome)) then some .part
  else none

/-- verdict of a writer union against a non-union reader -/
def unionAnyVerdict (rs : List (Option Compat)) : Option Compat :=
  if rs.all (· == some .full) then some .full
  else if rs.any (·.isSome) then some .part
  else none

/-- verdict of a non-union writer against a reader union -/
def anyUnionVerdict (rs : List (Option Compat)) : Option Compat :=
  if rs.any (· == some .full) then some .full
  else if rs.any (· == some .part) then some .part
  else none

def enumVerdict (wsyms rsyms : List Bytes) (rdefault : Option Bytes) : Option Compat :=
  if rdefault.isSome then some .full
  else if wsyms.all (rsyms.contains ·) then some .full
  else if wsyms.any (rsyms.contains ·) then some .part
  else none

/-- the writer field a reader field reads: by the reader field's name, then by its aliases in order -/
def findWriterField (wfields : List (FieldMeta × Schema)) (m : FieldMeta) : Option (FieldMeta × Schema) :=
  (m.name :: m.aliases).findSome? (fun ra => wfields.find? (fun wf => wf.1.name == ra))

/-- the record arm: `go` is the recursive check -/
def recordVerdict (go : Schema → Schema → Option Compat) (wfields : List (FieldMeta × Schema)) :
    List (FieldMeta × Schema) → Compat → Option Compat
  | [], acc => some acc
  | (m, rs) :: rest, acc =>
    match findWriterField wfields m with
    | some (_, ws) =>
      (match go ws rs with
       | some c => recordVerdict go wfields rest (acc.and c)
       | none => none)
    | none => if m.default.isNone then none else recordVerdict go wfields rest acc

/-- `Checker::full_match_schemas` -/
def canRead : Nat → Schema → Schema → Option Compat
  | 0, _, _ => none
  | fuel+1, w, r =>
    -- unqualified names must agree when both sides have one
    if (match w.cname?, r.cname? with
        | some a, some b => unqual a != unqual b
        | _, _ => false) then none
    else
    match w, r with
    | .ref a, .ref b => if a = b then some .full else none
    | .union ws, .union rs => unionUnionVerdict (ws.map (fun w' => rs.map (fun r' => canRead fuel w' r')))
    | .union ws, _ => unionAnyVerdict (ws.map (fun w' => canRead fuel w' r))
    | _, .union rs => anyUnionVerdict (rs.map (fun r' => canRead fuel w r'))
    | .null, .null => some .full
    | .boolean, .boolean => some .full
    | .array wi, .array ri => canRead fuel wi ri
    | .map wv, .map rv => canRead fuel wv rv
    | .enum _ wsyms _, .enum _ rsyms rd => enumVerdict wsyms rsyms rd
    | .record _ wfields, .record _ rfields => recordVerdict (canRead fuel) wfields rfields .full
    | .decimal wp wsc _, .decimal rp rsc _ => if rp = wp ∧ rsc = wsc then some .full else none
    | _, _ =>
      if w.isIntLike && (r.isIntLike || r.isLongLike || r.isFloat || r.isDouble) then some .full
      else if w.isLongLike && (r.isLongLike || r.isFloat || r.isDouble) then some .full
      else if w.isFloat && (r.isFloat || r.isDouble) then some .full
      else if w.isDouble && r.isDouble then some .full
      else if w.isBytesLike && r.isBytesLike then some .full
      else if w.isUuid && r.isUuid then some .full
      else match w.fixedSize?, r.fixedSize? with
        | some a, some b => if a = b then some .full else none
        | _, _ => none

/-- `SchemaCompatibility::mutual_read` -/
def mutualRead (fuel : Nat) (a b : Schema) : Option Compat :=
  match canRead fuel a b with
  | none => none
  | some c => match canRead fuel b a with
    | none => none
    | some d => some (c.and d)

end Avro
