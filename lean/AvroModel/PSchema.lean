import AvroModel.Schema
/-
The schema-text layer: names with namespaces (`schema/name.rs`, `validator.rs`), the full parsed
schema (`schema/mod.rs` `Schema` with docs, aliases, custom attributes, defaults) and JSON helpers.
Strings are UTF-8 byte lists; JSON objects are key-sorted association lists without duplicate
keys (`serde_json::Map` = `BTreeMap` in this build: no `preserve_order`).
-/
namespace Avro

/-- a string as UTF-8 bytes (run time only: does not reduce in the kernel) -/
def bs (s : String) : Bytes := s.toUTF8.toList

open Lean in
/-- `b!"text"`: the UTF-8 bytes of a string literal, written out as a list literal at elaboration
time (so that the kernel can compute with it) -/
macro:max "b!" s:str : term => do
  let bytes := s.getString.toUTF8.toList
  let elems ← bytes.toArray.mapM (fun b => `(($(quote b.toNat) : UInt8)))
  `(([$elems,*] : List UInt8))

/-! ### JSON helpers -/

def Json.get? (j : Json) (k : Bytes) : Option Json :=
  match j with
  | .obj kvs => (kvs.find? (fun kv => kv.1 == k)).map Prod.snd
  | _ => none

def Json.asStr? : Json → Option Bytes
  | .str s => some s
  | _ => none

def objGet (kvs : List (Bytes × Json)) (k : Bytes) : Option Json :=
  (kvs.find? (fun kv => kv.1 == k)).map Prod.snd

/-- `MapHelper::string` -/
def objStr (kvs : List (Bytes × Json)) (k : Bytes) : Option Bytes :=
  match objGet kvs k with
  | some (.str s) => some s
  | _ => none

/-- lexicographic order on byte strings (`BTreeMap<String, _>` key order) -/
def bytesLt : Bytes → Bytes → Bool
  | [], [] => false
  | [], _ :: _ => true
  | _ :: _, [] => false
  | a :: as, b :: bs => if a < b then true else if b < a then false else bytesLt as bs

/-- `BTreeMap::insert`: sorted position, an existing key is overwritten -/
def btInsert (m : List (Bytes × Json)) (k : Bytes) (v : Json) : List (Bytes × Json) :=
  match m with
  | [] => [(k, v)]
  | (k', v') :: rest =>
    if k == k' then (k, v) :: rest
    else if bytesLt k k' then (k, v) :: (k', v') :: rest
    else (k', v') :: btInsert rest k v

/-! ### identifiers and names -/

def isIdStart (c : UInt8) : Bool := (65 ≤ c && c ≤ 90) || (97 ≤ c && c ≤ 122) || c == 95
def isIdChar (c : UInt8) : Bool := isIdStart c || (48 ≤ c && c ≤ 57)

/-- `^[A-Za-z_][A-Za-z0-9_]*$` (enum symbols, field names, one segment of a name) -/
def isIdent : Bytes → Bool
  | [] => false
  | c :: rest => isIdStart c && rest.all isIdChar

/-- split at every dot -/
def splitDots : Bytes → List Bytes
  | [] => [[]]
  | c :: rest =>
    if c == 46 then [] :: splitDots rest
    else match splitDots rest with
      | [] => [[c]]
      | seg :: segs => (c :: seg) :: segs

/-- `^([A-Za-z_][A-Za-z0-9_]*(\.[A-Za-z_][A-Za-z0-9_]*)*)?$` -/
def isNamespace (s : Bytes) : Bool := s.isEmpty || (splitDots s).all isIdent

/-- `validate_schema_name`: the start of the name part, or `none` when the regex does not match:
an optional namespace (possibly empty) followed by a dot, then an identifier -/
def schemaNameIndex (s : Bytes) : Option Nat :=
  let segs := splitDots s
  match segs.reverse with
  | [] => none
  | name :: revNs =>
    if !isIdent name then none
    else match revNs with
      | [] => some 0                                     -- no dot at all
      | _ =>
        let ns := revNs.reverse
        -- the namespace part is empty (".name") or dotted identifiers
        if ns == [[]] || ns.all isIdent then some (s.length - name.length) else none

/-- `Name`: namespace (never `some []`) and name -/
structure PName where
  ns : Option Bytes
  name : Bytes
  deriving Repr, DecidableEq, Inhabited

/-- `Name::fullname(None)` / `Display` -/
def PName.full (n : PName) : Bytes :=
  match n.ns with
  | some ns => ns ++ [46] ++ n.name
  | none => n.name

/-- `Name::new_with_enclosing_namespace`; `none` = `InvalidSchemaName` / `InvalidNamespace` -/
def PName.ok (n : PName) : Bool :=
  isIdent n.name && (match n.ns with | none => true | some ns => !ns.isEmpty && isNamespace ns)

/-- `Name::new_with_enclosing_namespace`; `none` = `InvalidSchemaName` / `InvalidNamespace` -/
def PName.raw (s : Bytes) (enclosing : Option Bytes) : Option PName :=
  match schemaNameIndex s with
  | none => none
  | some idx =>
    if idx == 0 then
      match enclosing with
      | some ns => if ns.isEmpty then some { ns := none, name := s }
                   else if isNamespace ns then some { ns := some ns, name := s } else none
      | none => some { ns := none, name := s }
    else if idx == 1 then some { ns := none, name := s.drop 1 }      -- leading dot
    else some { ns := some (s.take (idx - 1)), name := s.drop idx }

/-- (the `if n.ok` re-checks what the regex match already guarantees - it never fails, and is there
so that "every name the parser builds is well formed" holds by construction) -/
def PName.make (s : Bytes) (enclosing : Option Bytes) : Option PName :=
  match PName.raw s enclosing with
  | some n => if n.ok then some n else none
  | none => none

/-- `Name::fully_qualified_name` -/
def PName.qualify (n : PName) (enclosing : Option Bytes) : PName :=
  match n.ns, enclosing with
  | none, some ns => if ns.isEmpty then n else { ns := some ns, name := n.name }
  | _, _ => n

/-! ### the parsed schema -/

abbrev Attrs := List (Bytes × Json)

structure FixedP where
  name : PName
  aliases : Option (List PName)
  doc : Option Bytes
  size : Nat
  attrs : Attrs
  deriving Repr, Inhabited

/-- everything of a `RecordField` except its schema -/
structure FieldHdr where
  name : Bytes
  doc : Option Bytes
  aliases : List Bytes
  default : Option Json
  attrs : Attrs
  deriving Repr, Inhabited

inductive PSchema
  | null | boolean | int | long | float | double | bytes | string
  | array (items : PSchema) (attrs : Attrs)
  | map (values : PSchema) (attrs : Attrs)
  | union (branches : List PSchema)
  | record (name : PName) (aliases : Option (List PName)) (doc : Option Bytes)
      (fields : List (FieldHdr × PSchema)) (attrs : Attrs)
  | enum (name : PName) (aliases : Option (List PName)) (doc : Option Bytes) (symbols : List Bytes)
      (default : Option Bytes) (attrs : Attrs)
  | fixed (f : FixedP)
  | decimal (precision scale : Nat) (inner : Option FixedP)       -- `none`: bytes
  | bigDecimal
  | uuidString | uuidBytes | uuidFixed (f : FixedP)
  | date | timeMillis | timeMicros | tsMillis | tsMicros | tsNanos | ltsMillis | ltsMicros | ltsNanos
  | duration (f : FixedP)
  | ref (name : PName)
  deriving Repr, Inhabited

/-- `Schema::name()` -/
def PSchema.pname? : PSchema → Option PName
  | .ref n | .record n _ _ _ _ | .enum n _ _ _ _ _ => some n
  | .fixed f | .decimal _ _ (some f) | .uuidFixed f | .duration f => some f.name
  | _ => none

/-- `SchemaKind` after `schema_to_base_schemakind`, as a small tag -/
inductive BaseKind
  | null | boolean | int | long | float | double | bytes | string | array | map | union | record | enum
  | fixed | ref | bigDecimal
  deriving Repr, DecidableEq

def PSchema.baseKind : PSchema → BaseKind
  | .null => .null | .boolean => .boolean | .int | .date | .timeMillis => .int
  | .long | .timeMicros | .tsMillis | .tsMicros | .tsNanos | .ltsMillis | .ltsMicros | .ltsNanos => .long
  | .float => .float | .double => .double
  | .bytes | .uuidBytes | .decimal _ _ none => .bytes
  | .string | .uuidString => .string
  | .array _ _ => .array | .map _ _ => .map | .union _ => .union
  | .record _ _ _ _ _ => .record | .enum _ _ _ _ _ _ => .enum
  | .fixed _ | .uuidFixed _ | .decimal _ _ (some _) | .duration _ => .fixed
  | .ref _ => .ref | .bigDecimal => .bigDecimal

end Avro
