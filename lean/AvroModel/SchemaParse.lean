import AvroModel.PSchema
/-
Model of `schema/parser.rs` (`Parser::parse` and friends), `Name::parse`, `RecordField::parse` and
`UnionSchema::new`.  The parser is a state machine over three tables (already parsed schemas,
schemas being resolved, input schemas not yet parsed - `HashMap`s, modelled as association lists
with overwrite-on-insert).  `none` stands for every error.  The check of a field default (which the
crate does by resolving the default against the field's schema) is a parameter `dflt`.
-/
namespace Avro

structure PSt where
  parsed : List (PName × PSchema) := []
  resolving : List (PName × PSchema) := []
  inputs : List (PName × Json) := []
  deriving Inhabited

def tblGet {α : Type} (t : List (PName × α)) (k : PName) : Option α :=
  (t.find? (fun kv => kv.1 == k)).map Prod.snd

def tblRemove {α : Type} (t : List (PName × α)) (k : PName) : List (PName × α) :=
  t.filter (fun kv => !(kv.1 == k))

/-- `HashMap::insert` -/
def tblInsert {α : Type} (t : List (PName × α)) (k : PName) (v : α) : List (PName × α) :=
  if (t.any (fun kv => kv.1 == k)) then t.map (fun kv => if kv.1 == k then (k, v) else kv) else t ++ [(k, v)]

/-- `Name::parse` -/
def parseName (kvs : List (Bytes × Json)) (enclosing : Option Bytes) : Option PName :=
  match objStr kvs b!"name" with
  | none => none
  | some nm => PName.make nm ((objStr kvs b!"namespace").orElse (fun _ => enclosing))

/-- `MapHelper::aliases`: an array of strings, all of them -/
def jsonAliases (kvs : List (Bytes × Json)) : Option (List Bytes) :=
  match objGet kvs b!"aliases" with
  | some (.arr xs) => xs.mapM Json.asStr?
  | _ => none

/-- `fix_aliases_namespace`: `none` = an invalid alias (error); `some none` = no aliases -/
def fixAliases (al : Option (List Bytes)) (ns : Option Bytes) : Option (Option (List PName)) :=
  match al with
  | none => some none
  | some xs => (xs.mapM (fun a => PName.make a ns)).map some

/-- `get_custom_attributes` -/
def customAttrs (kvs : List (Bytes × Json)) (excluded : List Bytes) : Attrs :=
  kvs.filter (fun kv =>
    !([b!"type", b!"name", b!"namespace", b!"doc", b!"aliases", b!"logicalType"].contains kv.1) &&
    !(excluded.contains kv.1))

/-- `RecordField::get_field_custom_attributes` -/
def fieldAttrs (kvs : List (Bytes × Json)) : Attrs :=
  kvs.filter (fun kv => !([b!"type", b!"name", b!"doc", b!"default", b!"aliases"].contains kv.1))

/-- `register_resolving_schema` -/
def registerResolving (st : PSt) (name : PName) (aliases : Option (List PName)) : PSt :=
  let r := tblInsert st.resolving name (.ref name)
  let r := (aliases.getD []).foldl (fun r a => tblInsert r (a.qualify name.ns) (.ref name)) r
  { st with resolving := r }

/-- `register_parsed_schema` -/
def registerParsed (st : PSt) (name : PName) (schema : PSchema) (aliases : Option (List PName)) : PSt :=
  let p := tblInsert st.parsed name schema
  let r := tblRemove st.resolving name
  let (p, r) := (aliases.getD []).foldl (fun (pr : List (PName × PSchema) × List (PName × PSchema)) a =>
    let fq := a.qualify name.ns
    (tblInsert pr.1 fq schema, tblRemove pr.2 fq)) (p, r)
  { st with parsed := p, resolving := r }

/-- `get_already_seen_schema` -/
def alreadySeen (st : PSt) (kvs : List (Bytes × Json)) (enclosing : Option Bytes) : Option PSchema :=
  match objGet kvs b!"type" with
  | some (.str t) =>
    (match PName.make t enclosing with
     | some n => (tblGet st.resolving n).orElse (fun _ => tblGet st.parsed n)
     | none => none)
  | _ => none

/-- `UnionSchema::new`: no nested union, no two unnamed branches of one base kind, no repeated name -/
def unionNew : List PSchema → List PName → List BaseKind → Option Unit
  | [], _, _ => some ()
  | s :: rest, names, kinds =>
    match s.pname? with
    | some n => if names.contains n then none else unionNew rest (n :: names) kinds
    | none =>
      let k := s.baseKind
      if k == .union then none
      else if kinds.contains k then none
      else unionNew rest names (k :: kinds)

/-- `parse_json_integer_for_decimal` + `get_decimal_integer` -/
def decimalInt (kvs : List (Bytes × Json)) (key : Bytes) : Option Nat :=
  match objGet kvs key with
  | some (.int n) => if 0 ≤ n then some n.toNat else none
  | none => if key == b!"scale" then some 0 else none
  | some _ => none

/-- `parse_precision_and_scale` -/
def precisionScale (kvs : List (Bytes × Json)) : Option (Nat × Nat) :=
  match decimalInt kvs b!"precision", decimalInt kvs b!"scale" with
  | some p, some sc => if p < 1 then none else if p < sc then none else some (p, sc)
  | _, _ => none

inductive LogicalTag
  | decimal | bigDecimal | uuid | date | timeMillis | timeMicros | tsMillis | tsMicros | tsNanos
  | ltsMillis | ltsMicros | ltsNanos | duration
  deriving Repr, DecidableEq

def logicalTable : List (Bytes × LogicalTag) :=
  [(b!"decimal", .decimal), (b!"big-decimal", .bigDecimal), (b!"uuid", .uuid), (b!"date", .date),
   (b!"time-millis", .timeMillis), (b!"time-micros", .timeMicros), (b!"timestamp-millis", .tsMillis),
   (b!"timestamp-micros", .tsMicros), (b!"timestamp-nanos", .tsNanos), (b!"local-timestamp-millis", .ltsMillis),
   (b!"local-timestamp-micros", .ltsMicros), (b!"local-timestamp-nanos", .ltsNanos), (b!"duration", .duration)]

/-- the logical type names the crate knows -/
def logicalOf (t : Bytes) : Option LogicalTag := (logicalTable.find? (fun e => e.1 == t)).map Prod.snd

/-- the conversion of a parsed native type to a logical type (the closures passed to
`try_convert_to_logical_type`): an unsupported base type, or an invalid decimal, keeps the native type -/
def applyLogical (tag : LogicalTag) (kvs : List (Bytes × Json)) (inner : PSchema) : PSchema :=
  match tag, inner with
  | .decimal, .bytes => (match precisionScale kvs with | some (p, sc) => .decimal p sc none | none => inner)
  | .decimal, .fixed f => (match precisionScale kvs with | some (p, sc) => .decimal p sc (some f) | none => inner)
  | .bigDecimal, .bytes => .bigDecimal
  | .uuid, .string => .uuidString
  | .uuid, .bytes => .uuidBytes
  | .uuid, .fixed f => if f.size == 16 then .uuidFixed f else inner
  | .date, .int => .date
  | .timeMillis, .int => .timeMillis
  | .timeMicros, .long => .timeMicros
  | .tsMillis, .long => .tsMillis
  | .tsMicros, .long => .tsMicros
  | .tsNanos, .long => .tsNanos
  | .ltsMillis, .long => .ltsMillis
  | .ltsMicros, .long => .ltsMicros
  | .ltsNanos, .long => .ltsNanos
  | .duration, .fixed f => if f.size == 12 then .duration f else inner
  | _, _ => inner

inductive ComplexTag
  | record | enum | array | map | fixed
  deriving Repr, DecidableEq

def complexTable : List (Bytes × ComplexTag) :=
  [(b!"record", .record), (b!"enum", .enum), (b!"array", .array), (b!"map", .map), (b!"fixed", .fixed)]

def complexOf (t : Bytes) : Option ComplexTag := (complexTable.find? (fun e => e.1 == t)).map Prod.snd

/-- the lookup table of a record: `FieldNameDuplicate` when a field's name is already a key (a
previous field's name or alias) -/
def fieldLookupOk : List (FieldHdr × PSchema) → List Bytes → Bool
  | [], _ => true
  | (h, _) :: rest, keys => if keys.contains h.name then false else fieldLookupOk rest (h.aliases ++ h.name :: keys)

/-- parse a sequence with the state threaded through (`iter().map(parse).collect::<Result<_,_>>()`) -/
def parseSeq (f : PSt → Json → Option (PSchema × PSt)) : PSt → List Json → Option (List PSchema × PSt)
  | st, [] => some ([], st)
  | st, j :: rest =>
    match f st j with
    | none => none
    | some (s, st') => match parseSeq f st' rest with
      | none => none
      | some (ss, st'') => some (s :: ss, st'')

/-- no default, or one the check accepts -/
def defaultAccepted (dflt : List (PName × PSchema) → PSchema → Json → Bool) (parsed : List (PName × PSchema))
    (schema : PSchema) : Option Json → Bool
  | some d => dflt parsed schema d
  | none => true

/-- the fields of a record: only JSON objects are looked at (`filter_map(as_object)`) -/
def parseFieldsWith (parseTy : PSt → Json → Option (PSchema × PSt))
    (dflt : List (PName × PSchema) → PSchema → Json → Bool) :
    PSt → List Json → Option (List (FieldHdr × PSchema) × PSt)
  | st, [] => some ([], st)
  | st, j :: rest =>
    match j with
    | .obj kvs =>
      (match objStr kvs b!"name" with
       | none => none
       | some nm =>
         if !isIdent nm then none
         else match objGet kvs b!"type" with
           | none => none
           | some ty => match parseTy st ty with
             | none => none
             | some (schema, st') =>
               let default := objGet kvs b!"default"
               if !defaultAccepted dflt st'.parsed schema default then none
               else
                 let aliases := match objGet kvs b!"aliases" with
                   | some (.arr xs) => xs.filterMap Json.asStr?
                   | _ => []
                 let hdr : FieldHdr := { name := nm, doc := objStr kvs b!"doc", aliases := aliases, default := default,
                                         attrs := fieldAttrs kvs }
                 match parseFieldsWith parseTy dflt st' rest with
                 | none => none
                 | some (fs, st'') => some ((hdr, schema) :: fs, st''))
    | _ => parseFieldsWith parseTy dflt st rest

/-- `get_schema_type_name` -/
def schemaTypeName (name : PName) (value : Json) : Option PName :=
  match value.get? b!"type" with
  | some (.obj inner) => (match objStr inner b!"name" with
    | some tn => PName.make tn none
    | none => some name)
  | _ => some name

abbrev ParseFn := PSt → Json → Option Bytes → Option (PSchema × PSt)
abbrev DfltFn := List (PName × PSchema) → PSchema → Json → Bool

/-- what `fetch_schema_ref` hands back for a freshly parsed input schema (`get_schema_ref`) -/
def schemaRefOf : PSchema → PSchema
  | .record n _ _ _ _ => .ref n
  | .enum n _ _ _ _ _ => .ref n
  | .fixed f => .ref f.name
  | other => other

def primTable : List (Bytes × PSchema) :=
  [(b!"null", .null), (b!"boolean", .boolean), (b!"int", .int), (b!"long", .long), (b!"double", .double),
   (b!"float", .float), (b!"bytes", .bytes), (b!"string", .string)]

/-- the primitive type names -/
def primOf (t : Bytes) : Option PSchema := (primTable.find? (fun e => e.1 == t)).map Prod.snd

/-- `parse_known_schema` / `fetch_schema_ref` -/
def parseKnown (parse : ParseFn) (st : PSt) (t : Bytes) (ns : Option Bytes) : Option (PSchema × PSt) :=
  match primOf t with
  | some p => some (p, st)
  | none =>
  match PName.make t ns with
    | none => none
    | some fq =>
      if (tblGet st.parsed fq).isSome then some (.ref fq, st)
      else match tblGet st.resolving fq with
        | some r => some (r, st)
        | none =>
          if fq.name == b!"record" || fq.name == b!"enum" || fq.name == b!"fixed" then none
          else match tblGet st.inputs fq with
            | none => none
            | some value =>
              match parse { st with inputs := tblRemove st.inputs fq } value none with
              | none => none
              | some (parsed, st2) =>
                match schemaTypeName fq value with
                | none => none
                | some key => some (schemaRefOf parsed, { st2 with parsed := tblInsert st2.parsed key parsed })

/-- `parse_fixed` -/
def parseFixed (st : PSt) (kvs : List (Bytes × Json)) (ns : Option Bytes) : Option (PSchema × PSt) :=
  let sizeOpt := objGet kvs b!"size"
  match (if sizeOpt.isNone then alreadySeen st kvs ns else none) with
  | some seen => some (seen, st)
  | none =>
    match sizeOpt with
    | some (.int n) =>
      if n < 0 then none
      else match parseName kvs ns with
        | none => none
        | some name => match fixAliases (jsonAliases kvs) name.ns with
          | none => none
          | some aliases =>
            let f : FixedP := { name := name, aliases := aliases, doc := objStr kvs b!"doc", size := n.toNat,
                                attrs := customAttrs kvs [b!"size"] }
            some (.fixed f, registerParsed st name (.fixed f) aliases)
    | _ => none

/-- `parse_record` -/
def parseRecord (parse : ParseFn) (dflt : DfltFn) (st : PSt) (kvs : List (Bytes × Json)) (ns : Option Bytes) :
    Option (PSchema × PSt) :=
  let fieldsOpt := objGet kvs b!"fields"
  match (if fieldsOpt.isNone then alreadySeen st kvs ns else none) with
  | some seen => some (seen, st)
  | none =>
    match parseName kvs ns with
    | none => none
    | some name => match fixAliases (jsonAliases kvs) name.ns with
      | none => none
      | some aliases =>
        match fieldsOpt with
        | some (.arr fjs) =>
          (match parseFieldsWith (fun st j => parse st j name.ns) dflt (registerResolving st name aliases) fjs with
           | none => none
           | some (fields, st2) =>
             if !fieldLookupOk fields [] then none
             else
               let schema : PSchema := .record name aliases (objStr kvs b!"doc") fields (customAttrs kvs [b!"fields"])
               some (schema, registerParsed st2 name schema aliases))
        | _ => none

/-- the `default` of an enum: absent, or a string that is one of the symbols -/
def enumDefault (kvs : List (Bytes × Json)) (symbols : List Bytes) : Option (Option Bytes) :=
  match objGet kvs b!"default" with
  | none => some none
  | some (.str d) => if symbols.contains d then some (some d) else none
  | some _ => none

/-- `parse_enum` -/
def parseEnum (st : PSt) (kvs : List (Bytes × Json)) (ns : Option Bytes) : Option (PSchema × PSt) :=
  let symbolsOpt := objGet kvs b!"symbols"
  match (if symbolsOpt.isNone then alreadySeen st kvs ns else none) with
  | some seen => some (seen, st)
  | none =>
    match parseName kvs ns with
    | none => none
    | some name => match fixAliases (jsonAliases kvs) name.ns with
      | none => none
      | some aliases =>
        match symbolsOpt with
        | some (.arr xs) =>
          (match xs.mapM Json.asStr? with
           | none => none
           | some symbols =>
             if !(symbols.all isIdent) || !symbols.Nodup then none
             else match enumDefault kvs symbols with
               | none => none
               | some default =>
                 let schema : PSchema := .enum name aliases (objStr kvs b!"doc") symbols default
                   (customAttrs kvs [b!"symbols", b!"default"])
                 some (schema, registerParsed st name schema aliases))
        | _ => none

/-- `parse_array` -/
def parseArray (parse : ParseFn) (st : PSt) (kvs : List (Bytes × Json)) (ns : Option Bytes) : Option (PSchema × PSt) :=
  match objGet kvs b!"items" with
  | none => none
  | some items => match parse st items ns with
    | none => none
    | some (it, st') => some (.array it (customAttrs kvs [b!"items"]), st')

/-- `parse_map` -/
def parseMap (parse : ParseFn) (st : PSt) (kvs : List (Bytes × Json)) (ns : Option Bytes) : Option (PSchema × PSt) :=
  match objGet kvs b!"values" with
  | none => none
  | some values => match parse st values ns with
    | none => none
    | some (it, st') => some (.map it (customAttrs kvs [b!"values"]), st')

/-- `parse_union` -/
def parseUnion (parse : ParseFn) (st : PSt) (items : List Json) (ns : Option Bytes) : Option (PSchema × PSt) :=
  match parseSeq (fun st j => parse st j ns) st items with
  | none => none
  | some (schemas, st') => match unionNew schemas [] [] with
    | none => none
    | some _ => some (.union schemas, st')

/-- the five complex kinds, each by its own parser -/
def parseComplexKind (parse : ParseFn) (dflt : DfltFn) (tag : ComplexTag) (st : PSt) (kvs : List (Bytes × Json))
    (ns : Option Bytes) : Option (PSchema × PSt) :=
  match tag with
  | .fixed => parseFixed st kvs ns
  | .record => parseRecord parse dflt st kvs ns
  | .enum => parseEnum st kvs ns
  | .array => parseArray parse st kvs ns
  | .map => parseMap parse st kvs ns

/-- `parse_as_native_complex` -/
def parseNative (parse : ParseFn) (dflt : DfltFn) (st : PSt) (kvs : List (Bytes × Json)) (ns : Option Bytes) :
    Option (PSchema × PSt) :=
  match objGet kvs b!"type" with
  | some (.str t) =>
    (match complexOf t with
     | some tag => parseComplexKind parse dflt tag st kvs ns
     | none => parse st (.str t) ns)
  | some v => parse st v ns
  | none => none

/-- the dispatch on `type` at the end of `parse_complex` -/
def parseByType (parse : ParseFn) (dflt : DfltFn) (st : PSt) (kvs : List (Bytes × Json)) (ns : Option Bytes) :
    Option (PSchema × PSt) :=
  match objGet kvs b!"type" with
  | some (.str t) =>
    (match complexOf t with
     | some tag => parseComplexKind parse dflt tag st kvs ns
     | none => parseKnown parse st t ns)
  | some (.obj data) => parse st (.obj data) ns
  | some (.arr variants) => parse st (.arr variants) ns
  | _ => none

/-- `parse_complex` -/
def parseComplex (parse : ParseFn) (dflt : DfltFn) (st : PSt) (kvs : List (Bytes × Json)) (ns : Option Bytes) :
    Option (PSchema × PSt) :=
  match objGet kvs b!"logicalType" with
  | some (.str t) =>
    (match logicalOf t with
     | some tag =>
       (match parseNative parse dflt st kvs ns with
        | none => none
        | some (inner, st') => some (applyLogical tag kvs inner, st'))
     | none => parseByType parse dflt st kvs ns)
  | some _ => none
  | none => parseByType parse dflt st kvs ns

/-- `Parser::parse` -/
def parseJ (dflt : DfltFn) : Nat → ParseFn
  | 0, _, _, _ => none
  | fuel+1, st, j, ns =>
    match j with
    | .str t => parseKnown (parseJ dflt fuel) st t ns
    | .arr items => parseUnion (parseJ dflt fuel) st items ns
    | .obj kvs => parseComplex (parseJ dflt fuel) dflt st kvs ns
    | _ => none

/-- `Schema::parse_str` / `Schema::parse` on one JSON value -/
def parseTop (dflt : DfltFn) (fuel : Nat) (j : Json) : Option PSchema :=
  (parseJ dflt fuel {} j none).map Prod.fst

end Avro
