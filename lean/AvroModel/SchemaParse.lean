import AvroModel.PSchema
/-
Model of `schema/parser.rs` (`Parser::parse` and friends), `Name::parse`, `RecordField::parse` and
`UnionSchema::new`.  The parser is a state machine over three tables (already parsed schemas,
schemas being resolved, input schemas not yet parsed - `HashMap`s, modelled as association lists
with overwrite-on-insert).  `none` stands for every error.  The check of a field default (which the
crate does by resolving the default against the field's schema) is a parameter `dflt`.
-/
namespace Avro

structure PSt where
  parsed : List (PName × PSchema) := []
  resolving : List (PName × PSchema) := []
  inputs : List (PName × Json) := []
  deriving Inhabited

def tblGet {α : Type} (t : List (PName × α)) (k : PName) : Option α :=
  (t.find? (fun kv => kv.1 == k)).map Prod.snd

def tblRemove {α : Type} (t : List (PName × α)) (k : PName) : List (PName × α) :=
  t.filter (fun kv => !(kv.1 == k))

/-- `HashMap::insert` -/
def tblInsert {α : Type} (t : List (PName × α)) (k : PName) (v : α) : List (PName × α) :=
  if (t.any (fun kv => kv.1 == k)) then t.map (fun kv => if kv.1 == k then (k, v) else kv) else t ++ [(k, v)]

/-- `Name::parse` -/
def parseName (kvs : List (Bytes × Json)) (enclosing : Option Bytes) : Option PName :=
  match objStr kvs (bs "name") with
  | none => none
  | some nm => PName.make nm ((objStr kvs (bs "namespace")).orElse (fun _ => enclosing))

/-- `MapHelper::aliases`: an array of strings, all of them -/
def jsonAliases (kvs : List (Bytes × Json)) : Option (List Bytes) :=
  match objGet kvs (bs "aliases") with
  | some (.arr xs) => xs.mapM Json.asStr?
  | _ => none

/-- `fix_aliases_namespace`: `none` = an invalid alias (error); `some none` = no aliases -/
def fixAliases (al : Option (List Bytes)) (ns : Option Bytes) : Option (Option (List PName)) :=
  match al with
  | none => some none
  | some xs => (xs.mapM (fun a => PName.make a ns)).map some

/-- `get_custom_attributes` -/
def customAttrs (kvs : List (Bytes × Json)) (excluded : List Bytes) : Attrs :=
  kvs.filter (fun kv =>
    !([bs "type", bs "name", bs "namespace", bs "doc", bs "aliases", bs "logicalType"].contains kv.1) &&
    !(excluded.contains kv.1))

/-- `RecordField::get_field_custom_attributes` -/
def fieldAttrs (kvs : List (Bytes × Json)) : Attrs :=
  kvs.filter (fun kv => !([bs "type", bs "name", bs "doc", bs "default", bs "aliases"].contains kv.1))

/-- `register_resolving_schema` -/
def registerResolving (st : PSt) (name : PName) (aliases : Option (List PName)) : PSt :=
  let r := tblInsert st.resolving name (.ref name)
  let r := (aliases.getD []).foldl (fun r a => tblInsert r (a.qualify name.ns) (.ref name)) r
  { st with resolving := r }

/-- `register_parsed_schema` -/
def registerParsed (st : PSt) (name : PName) (schema : PSchema) (aliases : Option (List PName)) : PSt :=
  let p := tblInsert st.parsed name schema
  let r := tblRemove st.resolving name
  let (p, r) := (aliases.getD []).foldl (fun (pr : List (PName × PSchema) × List (PName × PSchema)) a =>
    let fq := a.qualify name.ns
    (tblInsert pr.1 fq schema, tblRemove pr.2 fq)) (p, r)
  { st with parsed := p, resolving := r }

/-- `get_already_seen_schema` -/
def alreadySeen (st : PSt) (kvs : List (Bytes × Json)) (enclosing : Option Bytes) : Option PSchema :=
  match objGet kvs (bs "type") with
  | some (.str t) =>
    (match PName.make t enclosing with
     | some n => (tblGet st.resolving n).orElse (fun _ => tblGet st.parsed n)
     | none => none)
  | _ => none

/-- `UnionSchema::new`: no nested union, no two unnamed branches of one base kind, no repeated name -/
def unionNew : List PSchema → List PName → List BaseKind → Option Unit
  | [], _, _ => some ()
  | s :: rest, names, kinds =>
    match s.pname? with
    | some n => if names.contains n then none else unionNew rest (n :: names) kinds
    | none =>
      let k := s.baseKind
      if k == .union then none
      else if kinds.contains k then none
      else unionNew rest names (k :: kinds)

/-- `parse_json_integer_for_decimal` + `get_decimal_integer` -/
def decimalInt (kvs : List (Bytes × Json)) (key : Bytes) : Option Nat :=
  match objGet kvs key with
  | some (.int n) => if 0 ≤ n then some n.toNat else none
  | none => if key == bs "scale" then some 0 else none
  | some _ => none

/-- `parse_precision_and_scale` -/
def precisionScale (kvs : List (Bytes × Json)) : Option (Nat × Nat) :=
  match decimalInt kvs (bs "precision"), decimalInt kvs (bs "scale") with
  | some p, some sc => if p < 1 then none else if p < sc then none else some (p, sc)
  | _, _ => none

/-- the conversion of a parsed native type to the logical type named `t`; `none` = the parser
returns an error (only `inner.try_into()` can, and it cannot fail after the kind check) -/
def applyLogical (t : Bytes) (kvs : List (Bytes × Json)) (inner : PSchema) : PSchema :=
  if t == bs "decimal" then
    (match inner with
     | .bytes => (match precisionScale kvs with | some (p, sc) => .decimal p sc none | none => inner)
     | .fixed f => (match precisionScale kvs with | some (p, sc) => .decimal p sc (some f) | none => inner)
     | _ => inner)
  else if t == bs "big-decimal" then (match inner with | .bytes => .bigDecimal | _ => inner)
  else if t == bs "uuid" then
    (match inner with
     | .string => .uuidString
     | .bytes => .uuidBytes
     | .fixed f => if f.size == 16 then .uuidFixed f else inner
     | _ => inner)
  else if t == bs "date" then (match inner with | .int => .date | _ => inner)
  else if t == bs "time-millis" then (match inner with | .int => .timeMillis | _ => inner)
  else if t == bs "time-micros" then (match inner with | .long => .timeMicros | _ => inner)
  else if t == bs "timestamp-millis" then (match inner with | .long => .tsMillis | _ => inner)
  else if t == bs "timestamp-micros" then (match inner with | .long => .tsMicros | _ => inner)
  else if t == bs "timestamp-nanos" then (match inner with | .long => .tsNanos | _ => inner)
  else if t == bs "local-timestamp-millis" then (match inner with | .long => .ltsMillis | _ => inner)
  else if t == bs "local-timestamp-micros" then (match inner with | .long => .ltsMicros | _ => inner)
  else if t == bs "local-timestamp-nanos" then (match inner with | .long => .ltsNanos | _ => inner)
  else if t == bs "duration" then (match inner with | .fixed f => if f.size == 12 then .duration f else inner | _ => inner)
  else inner

def knownLogical : List String :=
  ["decimal", "big-decimal", "uuid", "date", "time-millis", "time-micros", "timestamp-millis", "timestamp-micros",
   "timestamp-nanos", "local-timestamp-millis", "local-timestamp-micros", "local-timestamp-nanos", "duration"]

/-- the lookup table of a record: `FieldNameDuplicate` when a field's name is already a key (a
previous field's name or alias) -/
def fieldLookupOk : List (FieldHdr × PSchema) → List Bytes → Bool
  | [], _ => true
  | (h, _) :: rest, keys => if keys.contains h.name then false else fieldLookupOk rest (h.aliases ++ h.name :: keys)

/-- parse a sequence with the state threaded through (`iter().map(parse).collect::<Result<_,_>>()`) -/
def parseSeq (f : PSt → Json → Option (PSchema × PSt)) : PSt → List Json → Option (List PSchema × PSt)
  | st, [] => some ([], st)
  | st, j :: rest =>
    match f st j with
    | none => none
    | some (s, st') => match parseSeq f st' rest with
      | none => none
      | some (ss, st'') => some (s :: ss, st'')

/-- the fields of a record: only JSON objects are looked at (`filter_map(as_object)`) -/
def parseFieldsWith (parseTy : PSt → Json → Option (PSchema × PSt))
    (dflt : List (PName × PSchema) → PSchema → Json → Bool) :
    PSt → List Json → Option (List (FieldHdr × PSchema) × PSt)
  | st, [] => some ([], st)
  | st, j :: rest =>
    match j with
    | .obj kvs =>
      (match objStr kvs (bs "name") with
       | none => none
       | some nm =>
         if !isIdent nm then none
         else match objGet kvs (bs "type") with
           | none => none
           | some ty => match parseTy st ty with
             | none => none
             | some (schema, st') =>
               let default := objGet kvs (bs "default")
               if !(match default with | some d => dflt st'.parsed schema d | none => true) then none
               else
                 let aliases := match objGet kvs (bs "aliases") with
                   | some (.arr xs) => xs.filterMap Json.asStr?
                   | _ => []
                 let hdr : FieldHdr := { name := nm, doc := objStr kvs (bs "doc"), aliases := aliases, default := default,
                                         attrs := fieldAttrs kvs }
                 match parseFieldsWith parseTy dflt st' rest with
                 | none => none
                 | some (fs, st'') => some ((hdr, schema) :: fs, st''))
    | _ => parseFieldsWith parseTy dflt st rest

/-- `get_schema_type_name` -/
def schemaTypeName (name : PName) (value : Json) : Option PName :=
  match value.get? (bs "type") with
  | some (.obj inner) => (match objStr inner (bs "name") with
    | some tn => PName.make tn none
    | none => some name)
  | _ => some name

/-- `Parser::parse` -/
def parseJ (dflt : List (PName × PSchema) → PSchema → Json → Bool) :
    Nat → PSt → Json → Option Bytes → Option (PSchema × PSt)
  | 0, _, _, _ => none
  | fuel+1, st, j, ns =>
    let parse := parseJ dflt fuel
    -- `parse_known_schema` / `fetch_schema_ref`
    let known (st : PSt) (t : Bytes) : Option (PSchema × PSt) :=
      if t == bs "null" then some (.null, st) else if t == bs "boolean" then some (.boolean, st)
      else if t == bs "int" then some (.int, st) else if t == bs "long" then some (.long, st)
      else if t == bs "double" then some (.double, st) else if t == bs "float" then some (.float, st)
      else if t == bs "bytes" then some (.bytes, st) else if t == bs "string" then some (.string, st)
      else match PName.make t ns with
        | none => none
        | some fq =>
          if (tblGet st.parsed fq).isSome then some (.ref fq, st)
          else match tblGet st.resolving fq with
            | some r => some (r, st)
            | none =>
              if fq.name == bs "record" || fq.name == bs "enum" || fq.name == bs "fixed" then none
              else match tblGet st.inputs fq with
                | none => none
                | some value =>
                  let st1 := { st with inputs := tblRemove st.inputs fq }
                  match parse st1 value none with
                  | none => none
                  | some (parsed, st2) =>
                    match schemaTypeName fq value with
                    | none => none
                    | some key =>
                      let st3 := { st2 with parsed := tblInsert st2.parsed key parsed }
                      let r : PSchema := match parsed with
                        | .record n _ _ _ _ | .enum n _ _ _ _ _ => .ref n
                        | .fixed f => .ref f.name
                        | other => other
                      some (r, st3)
    match j with
    | .str t => known st t
    | .arr items =>
      -- `parse_union`
      (match parseSeq (fun st j => parse st j ns) st items with
       | none => none
       | some (schemas, st') => match unionNew schemas [] [] with
         | none => none
         | some _ => some (.union schemas, st'))
    | .obj kvs =>
      -- `parse_complex`
      let parseFixed (st : PSt) : Option (PSchema × PSt) :=
        let sizeOpt := objGet kvs (bs "size")
        match (if sizeOpt.isNone then alreadySeen st kvs ns else none) with
        | some seen => some (seen, st)
        | none =>
          match sizeOpt with
          | some (.int n) =>
            if n < 0 then none
            else match parseName kvs ns with
              | none => none
              | some name => match fixAliases (jsonAliases kvs) name.ns with
                | none => none
                | some aliases =>
                  let f : FixedP := { name := name, aliases := aliases, doc := objStr kvs (bs "doc"), size := n.toNat,
                                      attrs := customAttrs kvs [bs "size"] }
                  some (.fixed f, registerParsed st name (.fixed f) aliases)
          | _ => none
      let parseRecord (st : PSt) : Option (PSchema × PSt) :=
        let fieldsOpt := objGet kvs (bs "fields")
        match (if fieldsOpt.isNone then alreadySeen st kvs ns else none) with
        | some seen => some (seen, st)
        | none =>
          match parseName kvs ns with
          | none => none
          | some name => match fixAliases (jsonAliases kvs) name.ns with
            | none => none
            | some aliases =>
              let st1 := registerResolving st name aliases
              match fieldsOpt with
              | some (.arr fjs) =>
                (match parseFieldsWith (fun st j => parse st j name.ns) dflt st1 fjs with
                 | none => none
                 | some (fields, st2) =>
                   if !fieldLookupOk fields [] then none
                   else
                     let schema : PSchema := .record name aliases (objStr kvs (bs "doc")) fields (customAttrs kvs [bs "fields"])
                     some (schema, registerParsed st2 name schema aliases))
              | _ => none
      let parseEnum (st : PSt) : Option (PSchema × PSt) :=
        let symbolsOpt := objGet kvs (bs "symbols")
        match (if symbolsOpt.isNone then alreadySeen st kvs ns else none) with
        | some seen => some (seen, st)
        | none =>
          match parseName kvs ns with
          | none => none
          | some name => match fixAliases (jsonAliases kvs) name.ns with
            | none => none
            | some aliases =>
              match symbolsOpt with
              | some (.arr xs) =>
                (match xs.mapM Json.asStr? with
                 | none => none
                 | some symbols =>
                   if !(symbols.all isIdent) || !symbols.Nodup then none
                   else
                     let defaultJ := objGet kvs (bs "default")
                     match (match defaultJ with
                            | none => some none
                            | some (.str d) => if symbols.contains d then some (some d) else none
                            | some _ => none) with
                     | none => none
                     | some default =>
                       let schema : PSchema := .enum name aliases (objStr kvs (bs "doc")) symbols default
                         (customAttrs kvs [bs "symbols", bs "default"])
                       some (schema, registerParsed st name schema aliases))
              | _ => none
      let parseArray (st : PSt) : Option (PSchema × PSt) :=
        match objGet kvs (bs "items") with
        | none => none
        | some items => match parse st items ns with
          | none => none
          | some (it, st') => some (.array it (customAttrs kvs [bs "items"]), st')
      let parseMap (st : PSt) : Option (PSchema × PSt) :=
        match objGet kvs (bs "values") with
        | none => none
        | some values => match parse st values ns with
          | none => none
          | some (it, st') => some (.map it (customAttrs kvs [bs "values"]), st')
      -- `parse_as_native_complex`
      let native (st : PSt) : Option (PSchema × PSt) :=
        match objGet kvs (bs "type") with
        | some (.str t) =>
          if t == bs "fixed" then parseFixed st
          else if t == bs "record" then parseRecord st
          else if t == bs "enum" then parseEnum st
          else if t == bs "array" then parseArray st
          else if t == bs "map" then parseMap st
          else parse st (.str t) ns
        | some v => parse st v ns
        | none => none
      -- the dispatch on `type` at the end of `parse_complex`
      let byType (st : PSt) : Option (PSchema × PSt) :=
        match objGet kvs (bs "type") with
        | some (.str t) =>
          if t == bs "record" then parseRecord st
          else if t == bs "enum" then parseEnum st
          else if t == bs "array" then parseArray st
          else if t == bs "map" then parseMap st
          else if t == bs "fixed" then parseFixed st
          else known st t
        | some (.obj data) => parse st (.obj data) ns
        | some (.arr variants) => parse st (.arr variants) ns
        | _ => none
      match objGet kvs (bs "logicalType") with
      | some (.str t) =>
        if (knownLogical.map bs).contains t then
          (match native st with
           | none => none
           | some (inner, st') => some (applyLogical t kvs inner, st'))
        else byType st
      | some _ => none
      | none => byType st
    | _ => none

/-- `Schema::parse_str` / `Schema::parse` on one JSON value -/
def parseTop (dflt : List (PName × PSchema) → PSchema → Json → Bool) (fuel : Nat) (j : Json) : Option PSchema :=
  (parseJ dflt fuel {} j none).map Prod.fst

end Avro
