import AvroModel.Basic
/-
`Schema`, `Value`, `Json` — nested inductives over `List` (DESIGN.md Appendix E).

Names in this datum-layer `Schema` are *fully qualified* byte strings: the harness qualifies
every definition and every reference with `Name::fully_qualified_name` while walking the
real `Schema` exactly like `schema::resolve::resolve_names` does, so that the datum-layer model
does not carry the enclosing namespace around.  Namespace handling itself is modelled in the
schema-text layer (Parser/ToJson).
-/
namespace Avro

/-- serde_json `Value` (numbers: integers as `Int`, everything else as `f64` bits). -/
inductive Json
  | null
  | bool (b : Bool)
  | int (n : Int)
  | float (bits : UInt64)
  | str (s : Bytes)
  | arr (xs : List Json)
  | obj (kvs : List (Bytes × Json))
  deriving Repr, Inhabited

inductive LongKind
  | timeMicros | tsMillis | tsMicros | tsNanos | ltsMillis | ltsMicros | ltsNanos
  deriving Repr, BEq, DecidableEq, Inhabited

structure FieldMeta where
  name : Bytes
  aliases : List Bytes := []
  default : Option Json := none
  deriving Repr, Inhabited

/-- inner representation of a `decimal`. -/
inductive DecInner
  | bytes
  | fixed (name : Bytes) (size : Nat)
  deriving Repr, BEq, DecidableEq, Inhabited

inductive Schema
  | null | boolean | int | long | float | double | bytes | string
  | date | timeMillis
  | longL (k : LongKind)
  | array (items : Schema)
  | map (values : Schema)
  | union (branches : List Schema)
  | record (name : Bytes) (fields : List (FieldMeta × Schema))
  | enum (name : Bytes) (symbols : List Bytes) (default : Option Bytes)
  | fixed (name : Bytes) (size : Nat)
  | decimal (precision scale : Nat) (inner : DecInner)
  | bigDecimal
  | uuidString | uuidBytes
  | uuidFixed (name : Bytes) (size : Nat)
  | duration (name : Bytes) (size : Nat)
  | ref (name : Bytes)
  deriving Repr, Inhabited

inductive Value
  | null
  | boolean (b : Bool)
  | int (n : Int)
  | long (n : Int)
  | float (bits : UInt32)
  | double (bits : UInt64)
  | bytes (b : Bytes)
  | string (utf8 : Bytes)
  | fixed (n : Nat) (b : Bytes)
  | enum (i : Nat) (sym : Bytes)
  | union (i : Nat) (v : Value)
  | array (vs : List Value)
  | map (es : List (Bytes × Value))
  | record (fs : List (Bytes × Value))
  | date (n : Int)
  | timeMillis (n : Int)
  | longL (k : LongKind) (n : Int)
  | decimal (unscaled : Int) (len : Nat)
  | bigDecimal (unscaled : Int) (scale : Int)
  | duration (months days millis : Nat)
  | uuid (b : Bytes)
  deriving Repr, Inhabited

/-- model of `ResolvedSchema::get_names`: fully qualified name ↦ definition. -/
abbrev Names := List (Bytes × Schema)

def Names.find? (env : Names) (n : Bytes) : Option Schema :=
  match env with
  | [] => none
  | (k, s) :: rest => if k = n then some s else Names.find? rest n

end Avro
