import AvroModel.Rabin
import AvroModel.Decode
import AvroModel.Encode
/-
Model of single-object encoding: `headers::RabinFingerprintHeader`, `writer::single_object::
GenericSingleObjectWriter` (a buffer that holds the header between calls) and
`reader::single_object::GenericSingleObjectReader`.

The marker bytes and the order in which the fingerprint bytes follow them are extracted from
`headers.rs` by the translator (`Generated.singleObjectMarker`, `…FingerprintOrder`).
-/
namespace Avro

/-- `RabinFingerprintHeader::build_header` for a schema whose canonical form is `pcf` -/
def soHeader (pcf : Bytes) : Bytes :=
  let fp := rabinDigest pcf
  Generated.singleObjectMarker.map UInt8.ofNat ++
    Generated.singleObjectFingerprintOrder.map (fun i => fp.getD i 0)

structure SoWriter where
  buffer : Bytes
  deriving Repr

/-- one `write_value_ref`: `enc` is the outcome of validating + encoding the value into the
buffer, `sinkOk` whether `write_all` succeeded.  Returns the new writer, what reached a perfect
sink (the whole message or nothing — partial delivery on a failing sink is C13's subject) and the
result. -/
def SoWriter.write (w : SoWriter) (enc : Option Bytes) (sinkOk : Bool) : SoWriter × Bytes × Option Nat :=
  let original := w.buffer.length
  if original < 10 ∨ 20 < original then (w, [], none)
  else match enc with
    | none => ({ buffer := w.buffer.take original }, [], none)
    | some e =>
      let msg := w.buffer ++ e
      if sinkOk then ({ buffer := msg.take original }, msg, some msg.length)
      else ({ buffer := msg.take original }, [], none)

/-- `GenericSingleObjectReader::read_value`: compare the header first, only then decode -/
def soRead (cfg : Cfg) (env : Names) (fuel : Nat) (schema : Schema) (expected : Bytes) (bs : Bytes) :
    Except Err (Value × Bytes) :=
  match takeExact expected.length bs with
  | .error e => .error e
  | .ok (h, r) => if h = expected then decode cfg env fuel schema r else .error .mismatch

end Avro
