import AvroModel.Decode
/-
Allocation requests of the decoders, one definition per allocation site of the Rust code:
what size is requested, *given that the guard in front of it passed*.  (The decoders themselves
are in `Decode.lean`; these functions expose the size the next `vec![0; n]` / `reserve_exact` /
`reserve` / `resize` is asked for, so that C05's bound can be stated per site.)
-/
namespace Avro

/-- `Schema::Bytes` / `Schema::String` arms: `let len = decode_len(reader)?; vec![0u8; len]`. -/
def allocBytes (lim : Nat) (bs : Bytes) : Option Nat :=
  match decLen lim bs with
  | .ok (len, _) => some len
  | .error _ => none

/-- `Schema::Fixed` arm (and `read_bytes` of the schema-aware deserializer):
`vec![0u8; safe_len(size)?]`. -/
def allocFixed (lim size : Nat) : Option Nat :=
  match safeLen lim size with
  | .ok n => some n
  | .error _ => none

/-- array arm: `safe_collection_len::<Value>(total)?; items.reserve_exact(len)` — the vector is
asked to hold `total` values. -/
def allocArrayBlock (cfg : Cfg) (have_ : Nat) (bs : Bytes) : Option Nat :=
  match decSeqLen cfg.lim bs with
  | .ok (len, _) =>
    if len = 0 then none
    else if have_ + len ≥ 2^64 then none
    else match safeCollectionLen cfg.lim cfg.szValue (have_ + len) with
      | .ok _ => some ((have_ + len) * cfg.szValue)
      | .error _ => none
  | .error _ => none

/-- map arm: the *declared* request of `items.reserve(len)` (hashbrown then rounds the bucket
count up — recorded finding C05.bounded-growth-overshoot). -/
def allocMapBlock (cfg : Cfg) (have_ : Nat) (bs : Bytes) : Option Nat :=
  match decSeqLen cfg.lim bs with
  | .ok (len, _) =>
    if len = 0 then none
    else if have_ + len ≥ 2^64 then none
    else match safeCollectionLen cfg.lim cfg.szEntry (have_ + len) with
      | .ok _ => some ((have_ + len) * cfg.szEntry)
      | .error _ => none
  | .error _ => none

/-- container block: `self.buf.resize(safe_len(n)?, 0)` with `n` the declared block byte size. -/
def allocBlockBuf (lim : Nat) (bs : Bytes) : Option Nat :=
  match readUsize bs with
  | .ok (n, _) => (match safeLen lim n with | .ok k => some k | .error _ => none)
  | .error _ => none

end Avro
