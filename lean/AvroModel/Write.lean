import AvroModel.Resolve
import AvroModel.Container
import AvroModel.SingleObject
/-
The three validating write paths, each "validate, then encode" in front of the path's own
bookkeeping (`writer/datum.rs` `write_value_ref`, `writer/mod.rs` `append_value_ref`,
`writer/single_object.rs` `write_value_ref`).
-/
namespace Avro

/-- `GenericDatumWriter::write_value_ref` with `validate = true`: the bytes handed to the output -/
def datumWrite (fo : FloatOps) (cfg : Cfg) (env : Names) (fuel : Nat) (s : Schema) (v : Value) : Except Err Bytes :=
  if validate fo cfg env fuel s v then encode env fuel s v else .error .validation

/-- what `Writer::append_value_ref` does to the container writer, as one of its operations -/
def appendOp (fo : FloatOps) (cfg : Cfg) (env : Names) (fuel : Nat) (s : Schema) (v : Value) : WOp :=
  if validate fo cfg env fuel s v then
    match encode env fuel s v with
    | .ok e => .append e
    | .error _ => .appendEncodeError
  else .appendRejected

/-- `GenericSingleObjectWriter::write_value_ref`: validation and encoding fill the `enc` argument of
`SoWriter.write` -/
def soWrite (fo : FloatOps) (cfg : Cfg) (env : Names) (fuel : Nat) (s : Schema) (v : Value)
    (w : SoWriter) (sinkOk : Bool) : SoWriter × Bytes × Option Nat :=
  w.write (if validate fo cfg env fuel s v then (match encode env fuel s v with | .ok e => some e | .error _ => none) else none) sinkOk

end Avro
