import AvroModel.Conforms
/-
The Avro specification's binary encoding, written down independently of the crate's encoder:
as arithmetic (zig-zag, base-128 digits) and as an inductive *relation* `SpecEnc cfg env s v bytes`
("`bytes` is a specification-legal encoding of `v` under `s`").  Arrays and maps are **any
sequence of blocks**: a positive count followed by the items, or a negative count followed by the
byte size of the block and the items, ending in a zero count.  Map entries appear in the order of
the value's entry list (any order is legal: quantify over the list).

`cfg` only carries the allocation limit: the side conditions say that every declared length and
every cumulative collection size is within it (otherwise a reader may legitimately refuse).
-/
namespace Avro.Spec
open Avro

/-- zig-zag as arithmetic: 0 → 0, -1 → 1, 1 → 2, -2 → 3, … -/
def zigzag (n : Int) : Nat := if 0 ≤ n then (2 * n).toNat else (-2 * n - 1).toNat

/-- base-128, least significant group first, high bit set on all but the last byte -/
def varint (n : Nat) : Bytes :=
  if h : n < 128 then [UInt8.ofNat n] else UInt8.ofNat (128 + n % 128) :: varint (n / 128)
termination_by n
decreasing_by omega

def long (n : Int) : Bytes := varint (zigzag n)

mutual
inductive SpecEnc (cfg : Cfg) (env : Names) : Schema → Value → Bytes → Prop
  | null : SpecEnc cfg env .null .null []
  | boolean (b : Bool) : SpecEnc cfg env .boolean (.boolean b) [if b then 1 else 0]
  | int {n : Int} : i32ok n → SpecEnc cfg env .int (.int n) (long n)
  | date {n : Int} : i32ok n → SpecEnc cfg env .date (.date n) (long n)
  | timeMillis {n : Int} : i32ok n → SpecEnc cfg env .timeMillis (.timeMillis n) (long n)
  | long {n : Int} : i64ok n → SpecEnc cfg env .long (.long n) (long n)
  | longL {k : LongKind} {n : Int} : i64ok n → SpecEnc cfg env (.longL k) (.longL k n) (long n)
  | float (bits : UInt32) : SpecEnc cfg env .float (.float bits) (leBytes 4 bits.toNat)
  | double (bits : UInt64) : SpecEnc cfg env .double (.double bits) (leBytes 8 bits.toNat)
  | bytes {b : Bytes} : b.length ≤ cfg.lim → SpecEnc cfg env .bytes (.bytes b) (long b.length ++ b)
  | string {u : Bytes} : u.length ≤ cfg.lim → validUtf8 u = true →
      SpecEnc cfg env .string (.string u) (long u.length ++ u)
  | fixed {name b : Bytes} : b.length ≤ cfg.lim → SpecEnc cfg env (.fixed name b.length) (.fixed b.length b) b
  | enum {name : Bytes} {syms : List Bytes} {d : Option Bytes} {i : Nat} {sym : Bytes} :
      syms[i]? = some sym → i < 2^31 → SpecEnc cfg env (.enum name syms d) (.enum i sym) (long i)
  | union {bs : List Schema} {i : Nat} {b : Schema} {v : Value} {enc : Bytes} :
      bs[i]? = some b → i < 2^32 → SpecEnc cfg env b v enc →
      SpecEnc cfg env (.union bs) (.union i v) (long i ++ enc)
  | array {inner : Schema} {items : List Value} {enc : Bytes} :
      SpecBlocks cfg env inner 0 items enc → SpecEnc cfg env (.array inner) (.array items) enc
  | map {inner : Schema} {es : List (Bytes × Value)} {enc : Bytes} :
      SpecMapBlocks cfg env inner 0 es enc → (es.map Prod.fst).Nodup →
      SpecEnc cfg env (.map inner) (.map es) enc
  | record {name : Bytes} {fields : List (FieldMeta × Schema)} {vfs : List (Bytes × Value)} {enc : Bytes} :
      SpecFields cfg env fields vfs enc → SpecEnc cfg env (.record name fields) (.record vfs) enc
  /- logical types are stored as their underlying type -/
  | decimalBytes {p sc : Nat} {i : Int} {b : Bytes} :
      fromSignedBE b = i → b.length ≤ cfg.lim →
      SpecEnc cfg env (.decimal p sc .bytes) (.decimal i b.length) (long b.length ++ b)
  | decimalFixed {p sc : Nat} {name : Bytes} {i : Int} {b : Bytes} :
      fromSignedBE b = i → b.length ≤ cfg.lim →
      SpecEnc cfg env (.decimal p sc (.fixed name b.length)) (.decimal i b.length) b
  | uuidString {b : Bytes} : b.length = 16 → 36 ≤ cfg.lim →
      SpecEnc cfg env .uuidString (.uuid b) (long 36 ++ uuidToText b)
  /-- uuid on `fixed(16)` (specification) and on `bytes` (library extension): the 16 raw bytes -/
  | uuidFixed {name b : Bytes} : b.length = 16 → 16 ≤ cfg.lim → SpecEnc cfg env (.uuidFixed name 16) (.uuid b) b
  | uuidBytes {b : Bytes} : b.length = 16 → 16 ≤ cfg.lim → SpecEnc cfg env .uuidBytes (.uuid b) (long 16 ++ b)
  /-- big-decimal: a `bytes` value holding the length-prefixed two's-complement unscaled value
  followed by the scale as a long -/
  | bigDecimal {u sc : Int} : fromSignedBE (toSignedBE u) = u → i64ok sc →
      (long (toSignedBE u).length ++ toSignedBE u ++ long sc).length ≤ cfg.lim →
      SpecEnc cfg env .bigDecimal (.bigDecimal u sc)
        (long (long (toSignedBE u).length ++ toSignedBE u ++ long sc).length ++
          (long (toSignedBE u).length ++ toSignedBE u ++ long sc))
  | duration {name : Bytes} {mo d ms : Nat} : mo < 2^32 → d < 2^32 → ms < 2^32 →
      SpecEnc cfg env (.duration name 12) (.duration mo d ms) (leBytes 4 mo ++ leBytes 4 d ++ leBytes 4 ms)
  | ref {n : Bytes} {s : Schema} {v : Value} {enc : Bytes} :
      env.find? n = some s → notRef s → SpecEnc cfg env s v enc → SpecEnc cfg env (.ref n) v enc

/-- `SpecBlocks … have_ items enc`: `enc` encodes `items` as blocks, `have_` items having been read
before (for the cumulative bound) -/
inductive SpecBlocks (cfg : Cfg) (env : Names) : Schema → Nat → List Value → Bytes → Prop
  | done {s : Schema} {k : Nat} : SpecBlocks cfg env s k [] [0]
  | pos {s : Schema} {k : Nat} {blk more : List Value} {benc menc : Bytes} :
      blk ≠ [] → SpecItems cfg env s blk benc → blk.length ≤ cfg.lim →
      (k + blk.length) * cfg.szValue ≤ cfg.lim →
      SpecBlocks cfg env s (k + blk.length) more menc →
      SpecBlocks cfg env s k (blk ++ more) (long blk.length ++ benc ++ menc)
  | neg {s : Schema} {k : Nat} {blk more : List Value} {benc menc : Bytes} :
      blk ≠ [] → SpecItems cfg env s blk benc → blk.length ≤ cfg.lim →
      (k + blk.length) * cfg.szValue ≤ cfg.lim → benc.length < 2^63 →
      SpecBlocks cfg env s (k + blk.length) more menc →
      SpecBlocks cfg env s k (blk ++ more) (long (-(blk.length : Int)) ++ long benc.length ++ benc ++ menc)

inductive SpecItems (cfg : Cfg) (env : Names) : Schema → List Value → Bytes → Prop
  | nil {s : Schema} : SpecItems cfg env s [] []
  | cons {s : Schema} {v : Value} {vs : List Value} {e es : Bytes} :
      SpecEnc cfg env s v e → SpecItems cfg env s vs es → SpecItems cfg env s (v :: vs) (e ++ es)

inductive SpecMapBlocks (cfg : Cfg) (env : Names) : Schema → Nat → List (Bytes × Value) → Bytes → Prop
  | done {s : Schema} {k : Nat} : SpecMapBlocks cfg env s k [] [0]
  | pos {s : Schema} {k : Nat} {blk more : List (Bytes × Value)} {benc menc : Bytes} :
      blk ≠ [] → SpecEntries cfg env s blk benc → blk.length ≤ cfg.lim →
      (k + blk.length) * cfg.szEntry ≤ cfg.lim →
      SpecMapBlocks cfg env s (k + blk.length) more menc →
      SpecMapBlocks cfg env s k (blk ++ more) (long blk.length ++ benc ++ menc)
  | neg {s : Schema} {k : Nat} {blk more : List (Bytes × Value)} {benc menc : Bytes} :
      blk ≠ [] → SpecEntries cfg env s blk benc → blk.length ≤ cfg.lim →
      (k + blk.length) * cfg.szEntry ≤ cfg.lim → benc.length < 2^63 →
      SpecMapBlocks cfg env s (k + blk.length) more menc →
      SpecMapBlocks cfg env s k (blk ++ more) (long (-(blk.length : Int)) ++ long benc.length ++ benc ++ menc)

inductive SpecEntries (cfg : Cfg) (env : Names) : Schema → List (Bytes × Value) → Bytes → Prop
  | nil {s : Schema} : SpecEntries cfg env s [] []
  | cons {s : Schema} {k : Bytes} {v : Value} {es : List (Bytes × Value)} {e rest : Bytes} :
      k.length ≤ cfg.lim → validUtf8 k = true → SpecEnc cfg env s v e → SpecEntries cfg env s es rest →
      SpecEntries cfg env s ((k, v) :: es) (long k.length ++ k ++ e ++ rest)

inductive SpecFields (cfg : Cfg) (env : Names) : List (FieldMeta × Schema) → List (Bytes × Value) → Bytes → Prop
  | nil : SpecFields cfg env [] [] []
  | cons {m : FieldMeta} {s : Schema} {v : Value} {fs : List (FieldMeta × Schema)} {vs : List (Bytes × Value)} {e rest : Bytes} :
      SpecEnc cfg env s v e → SpecFields cfg env fs vs rest →
      SpecFields cfg env ((m, s) :: fs) ((m.name, v) :: vs) (e ++ rest)
end

end Avro.Spec
