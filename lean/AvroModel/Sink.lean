import AvroModel.Basic
/-
Model of the `std::io::Write` contract as the writers use it (DESIGN.md C13).

A sink is a *script*: one entry is consumed per `write` call.  `accept k` takes at most `k` bytes
of what it is offered (`k = 0` is a sink that accepts nothing: `Ok(0)`); `fail interrupted` makes
the call return an error (`ErrorKind::Interrupted` or another kind).  An exhausted script accepts
everything.  `write_all` is std's documented loop: retry on `Interrupted`, `WriteZero` error on
`Ok(0)`, any other error is returned; nothing is called for an empty buffer.
-/
namespace Avro

inductive SinkStep
  | accept (k : Nat)
  | fail (interrupted : Bool)
  deriving Repr, BEq, DecidableEq, Inhabited

structure SinkSt where
  script : List SinkStep
  delivered : Bytes
  deriving Repr, Inhabited

inductive WriteErr | io | writeZero | interrupted
  deriving Repr, BEq, DecidableEq, Inhabited

/-- one `Write::write(buf)` call: how many bytes were accepted. -/
def Sink.write (st : SinkSt) (b : Bytes) : SinkSt × Except WriteErr Nat :=
  match st.script with
  | [] => ({ st with delivered := st.delivered ++ b }, .ok b.length)
  | .accept k :: rest =>
    ({ script := rest, delivered := st.delivered ++ b.take k }, .ok (min k b.length))
  | .fail true :: rest => ({ st with script := rest }, .error .interrupted)
  | .fail false :: rest => ({ st with script := rest }, .error .io)

/-- `Write::write_all(buf)`: structural on the script (each iteration consumes one entry; with an
exhausted script the rest is accepted at once). -/
def Sink.writeAllAux : List SinkStep → Bytes → Bytes → SinkSt × Except WriteErr Unit
  | script, delivered, [] => ({ script := script, delivered := delivered }, .ok ())
  | [], delivered, b => ({ script := [], delivered := delivered ++ b }, .ok ())
  | .accept k :: rest, delivered, b =>
    if k = 0 then ({ script := rest, delivered := delivered }, .error .writeZero)
    else Sink.writeAllAux rest (delivered ++ b.take k) (b.drop k)
  | .fail true :: rest, delivered, b => Sink.writeAllAux rest delivered b
  | .fail false :: rest, delivered, _ => ({ script := rest, delivered := delivered }, .error .io)

def Sink.writeAll (st : SinkSt) (b : Bytes) : SinkSt × Except WriteErr Unit :=
  Sink.writeAllAux st.script st.delivered b

/-- a write *site*: which method the code calls and with which bytes. -/
inductive SiteMethod | write | writeAll
  deriving Repr, BEq, DecidableEq, Inhabited

/-- running a path of sites in order; a `write` site ignores how many bytes were accepted (that is
what the Rust code at such a site does: it only propagates the `Err`). Stops at the first error. -/
def Sink.runPath : SinkSt → List (SiteMethod × Bytes) → SinkSt × Except WriteErr Unit
  | st, [] => (st, .ok ())
  | st, (.write, b) :: rest =>
    match Sink.write st b with
    | (st', .ok _) => Sink.runPath st' rest
    | (st', .error e) => (st', .error e)
  | st, (.writeAll, b) :: rest =>
    match Sink.writeAll st b with
    | (st', .ok _) => Sink.runPath st' rest
    | (st', .error e) => (st', .error e)

end Avro
