import AvroModel.Decode
import AvroModel.Encode
/-
Model of the object container file layer: `writer::Writer` (state machine over a perfect sink —
sink faults are C13's subject) and `reader::{Reader, block::Block}`.

The codec is a parameter pair `(compress, decompress)`; C15 is about that pair.  The writer schema
and its names table are parameters of the reader model (the JSON ↔ schema step belongs to the
schema-text layer); the header's metadata map itself is read with the datum decoder.
-/
namespace Avro

def magic : Bytes := [79, 98, 106, 1]   -- "Obj\x01"

structure Codec where
  compress : Bytes → Bytes
  decompress : Bytes → Except Err Bytes

def Codec.null : Codec := { compress := id, decompress := fun b => .ok b }

/-! ### writer -/

structure WCfg where
  blockSize : Nat
  /-- metadata entries the writer always emits: `avro.schema`, and for a non-null codec
  `avro.codec` (+ `avro.codec.compression_level`) -/
  fixedMeta : List (Bytes × Bytes)
  codec : Codec

structure WState where
  buffer : Bytes := []
  numValues : Nat := 0
  hasHeader : Bool := false
  userMeta : List (Bytes × Bytes) := []
  marker : Bytes
  sink : Bytes := []
  deriving Repr

inductive WOp
  /-- an append whose value was encoded into the pending buffer (`enc`) -/
  | append (enc : Bytes)
  /-- an append whose encoding failed part-way: the header may be written, nothing else stays -/
  | appendEncodeError
  /-- an append rejected by validation: nothing happens at all -/
  | appendRejected
  | flush
  | addMeta (k v : Bytes)
  | reset (newMarker : Bytes)
  | finish            -- `into_inner` or `drop`
  /-- a new writer on the same output, created with `has_header = true` and the original marker
  (`Writer::append_to`) -/
  | reopen
  deriving Repr

/-- `HashMap::insert` on the user metadata. -/
def metaInsert (m : List (Bytes × Bytes)) (k v : Bytes) : List (Bytes × Bytes) :=
  match m with
  | [] => [(k, v)]
  | (k', v') :: rest => if k' = k then (k, v) :: rest else (k', v') :: metaInsert rest k v

/-- encoding of a `map<bytes>` given as entries (one block; `encode_internal`'s map arm). -/
def encMetaMap (es : List (Bytes × Bytes)) : Bytes :=
  if es.isEmpty then [0]
  else encLong es.length ++ (es.map (fun kv => encBytes kv.1 ++ encBytes kv.2)).flatten ++ [0]

/-- `Writer::header`. The real metadata is a `HashMap`, so the entry order is unspecified; the model
fixes one order and files are compared after parsing. -/
def headerBytes (cfg : WCfg) (st : WState) : Bytes :=
  magic ++ encMetaMap (cfg.fixedMeta ++ st.userMeta) ++ st.marker

def avroDot : Bytes := [97, 118, 114, 111, 46]  -- "avro."

/-- `maybe_write_header`: returns the new state and the bytes written. -/
def writeHeader (cfg : WCfg) (st : WState) : WState × Nat :=
  if st.hasHeader then (st, 0)
  else
    let h := headerBytes cfg st
    ({ st with sink := st.sink ++ h, hasHeader := true }, h.length)

/-- one block: count, byte size, payload, marker. -/
def blockBytes (marker : Bytes) (count : Nat) (payload : Bytes) : Bytes :=
  encLong count ++ encLong payload.length ++ payload ++ marker

/-- `Writer::flush`. -/
def doFlush (cfg : WCfg) (st : WState) : WState × Nat :=
  let (st1, n) := writeHeader cfg st
  if st1.numValues = 0 then (st1, n)
  else
    let payload := cfg.codec.compress st1.buffer
    let blk := blockBytes st1.marker st1.numValues payload
    ({ st1 with sink := st1.sink ++ blk, buffer := [], numValues := 0 }, n + blk.length)

/-- result of an op: `some n` = `Ok(n)` (n = bytes written for the ops that report it), `none` = `Err`. -/
def Writer.step (cfg : WCfg) (st : WState) : WOp → WState × Option Nat
  | .append enc =>
    let (st1, n) := writeHeader cfg st
    let st2 := { st1 with buffer := st1.buffer ++ enc, numValues := st1.numValues + 1 }
    if st2.buffer.length ≥ cfg.blockSize then
      let (st3, m) := doFlush cfg st2
      (st3, some (m + n))
    else (st2, some n)
  | .appendEncodeError =>
    let (st1, _) := writeHeader cfg st
    (st1, none)
  | .appendRejected => (st, none)
  | .flush =>
    let (st1, n) := doFlush cfg st
    (st1, some n)
  | .addMeta k v =>
    if st.hasHeader then (st, none)
    else if k.take 5 = avroDot then (st, none)
    else ({ st with userMeta := metaInsert st.userMeta k v }, some 0)
  | .reset m =>
    ({ buffer := [], numValues := 0, hasHeader := false, userMeta := [], marker := m, sink := [] }, some 0)
  | .finish =>
    let (st1, n) := doFlush cfg st
    (st1, some n)
  | .reopen =>
    ({ buffer := [], numValues := 0, hasHeader := true, userMeta := [], marker := st.marker, sink := st.sink }, some 0)

def Writer.run (cfg : WCfg) (st : WState) : List WOp → WState
  | [] => st
  | op :: ops => Writer.run cfg (Writer.step cfg st op).1 ops

/-! ### reader -/

/-- metadata values are `bytes`; anything else is dropped (`read_user_metadata` warns and skips) -/
def metaBytesOnly (kv : Bytes × Value) : Option (Bytes × Bytes) :=
  match kv.2 with
  | .bytes b => some (kv.1, b)
  | _ => none

/-- `Block::read_header`: magic, metadata map (`map<bytes>` read with the datum decoder), marker.
Returns the raw metadata entries, the marker and the rest. -/
def readHeader (cfg : Cfg) (fuel : Nat) (bs : Bytes) : Except Err (List (Bytes × Bytes) × Bytes × Bytes) :=
  match takeExact 4 bs with
  | .error e => .error e
  | .ok (m, r) =>
    if m ≠ magic then .error .other
    else match decode cfg [] fuel (.map .bytes) r with
      | .error e => .error e
      | .ok (.map es, r1) =>
        match takeExact 16 r1 with
        | .error e => .error e
        | .ok (marker, r2) =>
          .ok (es.filterMap metaBytesOnly, marker, r2)
      | .ok _ => .error .other

/-- how an iteration over the file ended -/
inductive ReadEnd
  | clean
  | error (e : Err)
  deriving Repr, BEq, DecidableEq

/-- decode `count` items from a block's payload, one at a time (`Block::read_next`): an item that
consumes no bytes although bytes are left is the `ReadBlock` error. -/
def readItems (f : Reader Value) : Nat → Bytes → List Value × Option Err
  | 0, _ => ([], none)
  | n+1, buf =>
    match f buf with
    | .error e => ([], some e)
    | .ok (v, r) =>
      if buf.length ≠ 0 ∧ r.length = buf.length then ([], some .other)
      else
        let (vs, e) := readItems f n r
        (v :: vs, e)

/-- `read_block_next` + iteration: end of input exactly at a block boundary is a clean end; a
block with count 0 is skipped; the trailing marker is checked before any item of the block is
yielded. -/
def readBlocks (cfg : Cfg) (codec : Codec) (f : Reader Value) (marker : Bytes) : Nat → Bytes → List Value × ReadEnd
  | 0, _ => ([], .error .fuel)
  | _+1, [] => ([], .clean)
  | fuel+1, bs =>
    match readUsize bs with
    | .error e => ([], .error e)
    | .ok (count, r1) =>
      match readUsize r1 with
      | .error e => ([], .error e)
      | .ok (size, r2) =>
        match safeLen cfg.lim size with
        | .error e => ([], .error e)
        | .ok _ =>
          match takeExact size r2 with
          | .error e => ([], .error e)
          | .ok (payload, r3) =>
            match takeExact 16 r3 with
            | .error e => ([], .error e)
            | .ok (m, r4) =>
              if m ≠ marker then ([], .error .other)
              else match codec.decompress payload with
                | .error e => ([], .error e)
                | .ok data =>
                  match readItems f count data with
                  | (vs, some e) => (vs, .error e)
                  | (vs, none) =>
                    let (more, fin) := readBlocks cfg codec f marker fuel r4
                    (vs ++ more, fin)

/-- the whole file: header, then all blocks. -/
def readFile (cfg : Cfg) (codec : Codec) (env : Names) (fuel : Nat) (schema : Schema) (bs : Bytes) :
    Except Err (List (Bytes × Bytes) × Bytes × List Value × ReadEnd) :=
  match readHeader cfg fuel bs with
  | .error e => .error e
  | .ok (md, marker, rest) =>
    let (vs, fin) := readBlocks cfg codec (decode cfg env fuel schema) marker (rest.length + 1) rest
    .ok (md, marker, vs, fin)

end Avro
