import AvroModel.PSchema
/-
`impl Serialize for Schema` (`schema/mod.rs`), `RecordField`, `Alias`; `serde_json::to_value`;
and the Parsing Canonical Form (`parsing_canonical_form`, `pcf_map`, …) computed - like the
crate does - from the serialized JSON value.
-/
namespace Avro

/-- what a `serde` serializer is asked to write: objects keep the order of `serialize_entry`
calls and may repeat a key; `raw` is an embedded `serde_json::Value` (defaults, attributes) -/
inductive JOut
  | str (s : Bytes)
  | num (n : Nat)
  | arr (xs : List JOut)
  | obj (kvs : List (Bytes × JOut))
  | raw (j : Json)
  deriving Repr, Inhabited

def attrsOut (a : Attrs) : List (Bytes × JOut) := a.map (fun kv => (kv.1, .raw kv.2))

def aliasesOut (al : List PName) : JOut := .arr (al.map (fun a => .str a.full))

/-- `FixedSchema::serialize_to_map` (custom attributes named in `skip` are left out: the decimal
arm writes `scale` and `precision` itself) -/
def fixedEntries (f : FixedP) (skip : List Bytes) : List (Bytes × JOut) :=
  [(bs "type", .str (bs "fixed"))] ++
  (match f.name.ns with | some n => [(bs "namespace", .str n)] | none => []) ++
  [(bs "name", .str f.name.name)] ++
  (match f.doc with | some d => [(bs "doc", .str d)] | none => []) ++
  [(bs "size", .num f.size)] ++
  (match f.aliases with | some al => [(bs "aliases", aliasesOut al)] | none => []) ++
  attrsOut (f.attrs.filter (fun kv => !skip.contains kv.1))

def logicalOut (base lt : String) : JOut :=
  .obj [(bs "type", .str (bs base)), (bs "logicalType", .str (bs lt))]

mutual
/-- `impl Serialize for Schema` -/
def toJson : PSchema → JOut
  | .ref n => .str n.full
  | .null => .str (bs "null") | .boolean => .str (bs "boolean") | .int => .str (bs "int")
  | .long => .str (bs "long") | .float => .str (bs "float") | .double => .str (bs "double")
  | .bytes => .str (bs "bytes") | .string => .str (bs "string")
  | .array items attrs => .obj ([(bs "type", .str (bs "array")), (bs "items", toJson items)] ++ attrsOut attrs)
  | .map values attrs => .obj ([(bs "type", .str (bs "map")), (bs "values", toJson values)] ++ attrsOut attrs)
  | .union branches => .arr (toJsonList branches)
  | .record name aliases doc fields attrs =>
    .obj ([(bs "type", .str (bs "record"))] ++
      (match name.ns with | some n => [(bs "namespace", .str n)] | none => []) ++
      [(bs "name", .str name.name)] ++
      (match doc with | some d => [(bs "doc", .str d)] | none => []) ++
      (match aliases with | some al => [(bs "aliases", aliasesOut al)] | none => []) ++
      [(bs "fields", .arr (toJsonFields fields))] ++
      attrsOut attrs)
  | .enum name aliases doc symbols default attrs =>
    .obj ([(bs "type", .str (bs "enum"))] ++
      (match name.ns with | some n => [(bs "namespace", .str n)] | none => []) ++
      [(bs "name", .str name.name), (bs "symbols", .arr (symbols.map .str))] ++
      (match aliases with | some al => [(bs "aliases", aliasesOut al)] | none => []) ++
      (match default with | some d => [(bs "default", .str d)] | none => []) ++
      (match doc with | some d => [(bs "doc", .str d)] | none => []) ++
      attrsOut attrs)
  | .fixed f => .obj (fixedEntries f [])
  | .decimal precision scale inner =>
    .obj ((match inner with
           | some f => fixedEntries f [bs "scale", bs "precision"]
           | none => [(bs "type", .str (bs "bytes"))]) ++
      [(bs "logicalType", .str (bs "decimal")), (bs "scale", .num scale), (bs "precision", .num precision)])
  | .bigDecimal => logicalOut "bytes" "big-decimal"
  | .uuidBytes => logicalOut "bytes" "uuid"
  | .uuidString => logicalOut "string" "uuid"
  | .uuidFixed f => .obj (fixedEntries f [] ++ [(bs "logicalType", .str (bs "uuid"))])
  | .date => logicalOut "int" "date"
  | .timeMillis => logicalOut "int" "time-millis"
  | .timeMicros => logicalOut "long" "time-micros"
  | .tsMillis => logicalOut "long" "timestamp-millis"
  | .tsMicros => logicalOut "long" "timestamp-micros"
  | .tsNanos => logicalOut "long" "timestamp-nanos"
  | .ltsMillis => logicalOut "long" "local-timestamp-millis"
  | .ltsMicros => logicalOut "long" "local-timestamp-micros"
  | .ltsNanos => logicalOut "long" "local-timestamp-nanos"
  | .duration f => .obj (fixedEntries f [] ++ [(bs "logicalType", .str (bs "duration"))])
def toJsonList : List PSchema → List JOut
  | [] => []
  | s :: rest => toJson s :: toJsonList rest
/-- `impl Serialize for RecordField` -/
def toJsonFields : List (FieldHdr × PSchema) → List JOut
  | [] => []
  | (h, s) :: rest =>
    .obj ([(bs "name", .str h.name), (bs "type", toJson s)] ++
      (match h.default with | some d => [(bs "default", .raw d)] | none => []) ++
      (match h.doc with | some d => [(bs "doc", .str d)] | none => []) ++
      (if h.aliases.isEmpty then [] else [(bs "aliases", .arr (h.aliases.map .str))]) ++
      attrsOut h.attrs) :: toJsonFields rest
end

mutual
/-- every object is written with distinct keys (strict JSON) -/
def JOut.strict : JOut → Bool
  | .obj kvs => (kvs.map Prod.fst).Nodup && strictEntries kvs
  | .arr xs => strictList xs
  | _ => true
def strictList : List JOut → Bool
  | [] => true
  | x :: xs => x.strict && strictList xs
def strictEntries : List (Bytes × JOut) → Bool
  | [] => true
  | (_, v) :: rest => v.strict && strictEntries rest
end

mutual
/-- what a JSON reader (`serde_json::from_str`, `to_value`) makes of it: keys sorted, the last
occurrence of a repeated key wins -/
def JOut.toValue : JOut → Json
  | .str s => .str s
  | .num n => .int n
  | .arr xs => .arr (toValueList xs)
  | .obj kvs => .obj (toValueEntries kvs [])
  | .raw j => j
def toValueList : List JOut → List Json
  | [] => []
  | x :: xs => x.toValue :: toValueList xs
def toValueEntries : List (Bytes × JOut) → List (Bytes × Json) → List (Bytes × Json)
  | [], acc => acc
  | (k, v) :: rest, acc => toValueEntries rest (btInsert acc k v.toValue)
end

/-! ### Parsing Canonical Form -/

def reservedFields : List String :=
  ["name", "type", "fields", "symbols", "items", "values", "size", "logicalType", "order", "doc", "aliases", "default",
   "precision", "scale"]

/-- `field_ordering_position` (0-based here) -/
def fieldPos (k : Bytes) : Option Nat := (reservedFields.map bs).findIdx? (· == k)

def pcfString (s : Bytes) : Bytes := [34] ++ s ++ [34]

def natDigits : Nat → Nat → Bytes
  | 0, _ => []
  | fuel+1, n => if n < 10 then [UInt8.ofNat (48 + n)] else natDigits fuel (n / 10) ++ [UInt8.ofNat (48 + n % 10)]

def intText (i : Int) : Bytes :=
  if i < 0 then [45] ++ natDigits 40 i.natAbs else natDigits 40 i.natAbs

def joinComma : List Bytes → Bytes
  | [] => []
  | [x] => x
  | x :: rest => x ++ [44] ++ joinComma rest

/-- stable insertion by position (`sort_unstable_by_key` on distinct keys: object keys are
distinct, so are their positions) -/
def insertByPos (x : Nat × Bytes) : List (Nat × Bytes) → List (Nat × Bytes)
  | [] => [x]
  | y :: rest => if x.1 < y.1 then x :: y :: rest else y :: insertByPos x rest

/-- `str::parse::<i64>`: optional sign, then decimal digits, within the `i64` range -/
def parseI64 (s : Bytes) : Option Int :=
  let (neg, digits) := match s with
    | 45 :: rest => (true, rest)
    | 43 :: rest => (false, rest)
    | _ => (false, s)
  if digits.isEmpty || !digits.all (fun c => 48 ≤ c && c ≤ 57) then none
  else
    let n : Nat := digits.foldl (fun acc c => acc * 10 + (c.toNat - 48)) 0
    let v : Int := if neg then -(n : Int) else n
    if -9223372036854775808 ≤ v ∧ v ≤ 9223372036854775807 then some v else none

def isNamedType (t : Option Bytes) : Bool :=
  t == some (bs "record") || t == some (bs "enum") || t == some (bs "fixed") || t == some (bs "ref")

/-- the relevant keys of a node, by its kind (the specification's STRIP rule: a custom attribute may
carry the name of a key that is relevant for another kind) -/
def relevantKeys (t : Option Bytes) : List Bytes :=
  if t == some (bs "record") || t == some (bs "error") then [bs "name", bs "type", bs "fields"]
  else if t == some (bs "enum") then [bs "name", bs "type", bs "symbols"]
  else if t == some (bs "fixed") then [bs "name", bs "type", bs "size"]
  else if t == some (bs "array") then [bs "type", bs "items"]
  else if t == some (bs "map") then [bs "type", bs "values"]
  else [bs "name", bs "type"]

/-- `pcf_array`: `f` is the recursive call -/
def pcfArr (f : Json → List Bytes → Option (Bytes × List Bytes)) :
    List Json → List Bytes → List Bytes → Option (List Bytes × List Bytes)
  | [], defined, acc => some (acc.reverse, defined)
  | x :: rest, defined, acc =>
    match f x defined with
    | some (t, d) => pcfArr f rest d (t :: acc)
    | none => none

/-- the loop of `pcf_map` over the entries of an object with `nKeys` keys; `.inl` = the PRIMITIVE
rule fired, `.inr` = the collected `key:value` texts in canonical order; `none` = panic -/
def pcfEntries (f : Json → List Bytes → Option (Bytes × List Bytes)) (nKeys : Nat) (relevant : List Bytes)
    (name : Option Bytes) :
    List (Bytes × Json) → List Bytes → List (Nat × Bytes) → Option (Sum Bytes (List (Nat × Bytes)) × List Bytes)
  | [], defined, acc => some (.inr acc, defined)
  | (k, v) :: rest, defined, acc =>
    -- the PRIMITIVE rule: an object with the single key "type" whose value is a string
    if nKeys == 1 && k == bs "type" && v.asStr?.isSome then some (.inl (pcfString (v.asStr?.getD [])), defined)
    else if !relevant.contains k then pcfEntries f nKeys relevant name rest defined acc
    else match fieldPos k with
      | none => pcfEntries f nKeys relevant name rest defined acc
      | some pos =>
        if k == bs "name" && name.isSome then
          pcfEntries f nKeys relevant name rest defined (insertByPos (pos, pcfString k ++ [58] ++ pcfString (name.getD [])) acc)
        else if k == bs "size" then
          -- `s.parse::<u64>().expect(..)` / `v.as_u64().expect(..)`
          (match v with
           | .str s => (match parseI64 s with
             | some i => if 0 ≤ i then pcfEntries f nKeys relevant name rest defined (insertByPos (pos, pcfString k ++ [58] ++ intText i) acc) else none
             | none => none)
           | .int i => if 0 ≤ i ∧ i < 18446744073709551616 then pcfEntries f nKeys relevant name rest defined (insertByPos (pos, pcfString k ++ [58] ++ intText i) acc) else none
           | _ => none)
        else match v with
          | .str _ | .arr _ | .obj _ =>
            (match f v defined with
             | some (t, d) => pcfEntries f nKeys relevant name rest d (insertByPos (pos, pcfString k ++ [58] ++ t) acc)
             | none => none)
          | _ => none        -- `panic!("got invalid JSON value for canonical form of schema")`

/-- `parsing_canonical_form` on the serialized JSON value; the `HashSet` of defined names is
threaded through; `none` = the crate panics -/
def pcf : Nat → Json → List Bytes → Option (Bytes × List Bytes)
  | 0, _, _ => none
  | fuel+1, j, defined =>
    match j with
    | .str s => some (pcfString s, defined)
    | .arr xs =>
      (match pcfArr (pcf fuel) xs defined [] with
       | some (parts, d) => some ([91] ++ joinComma parts ++ [93], d)
       | none => none)
    | .obj kvs =>
      -- `pcf_map`
      let typ := objStr kvs (bs "type")
      let name : Option Bytes :=
        if isNamedType typ then
          let ns := objStr kvs (bs "namespace")
          let raw := (objStr kvs (bs "name")).getD []
          some ((match ns with | some n => n ++ [46] | none => []) ++ raw)
        else none
      match (match name with | some n => if defined.contains n then some n else none | none => none) with
      | some n => some (pcfString n, defined)
      | none =>
        let defined := match name with | some n => n :: defined | none => defined
        (match pcfEntries (pcf fuel) kvs.length (relevantKeys typ) name kvs defined [] with
         | some (.inl t, d) => some (t, d)
         | some (.inr fields, d) => some ([123] ++ joinComma (fields.map Prod.snd) ++ [125], d)
         | none => none)
    | _ => none

/-- `Schema::canonical_form` -/
def canonicalForm (fuel : Nat) (s : PSchema) : Option Bytes :=
  (pcf fuel (toJson s).toValue []).map Prod.fst

end Avro
