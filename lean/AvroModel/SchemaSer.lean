import AvroModel.PSchema
/-
`impl Serialize for Schema` (`schema/mod.rs`), `RecordField`, `Alias`; `serde_json::to_value`;
and the Parsing Canonical Form (`parsing_canonical_form`, `pcf_map`, …) computed - like the
crate does - from the serialized JSON value.
-/
namespace Avro

/-- what a `serde` serializer is asked to write: objects keep the order of `serialize_entry`
calls and may repeat a key; `raw` is an embedded `serde_json::Value` (defaults, attributes) -/
inductive JOut
  | str (s : Bytes)
  | num (n : Nat)
  | arr (xs : List JOut)
  | obj (kvs : List (Bytes × JOut))
  | raw (j : Json)
  deriving Repr, Inhabited

def attrsOut (a : Attrs) : List (Bytes × JOut) := a.map (fun kv => (kv.1, .raw kv.2))

def aliasesOut (al : List PName) : JOut := .arr (al.map (fun a => .str a.full))

/-- `FixedSchema::serialize_to_map` (custom attributes named in `skip` are left out: the decimal
arm writes `scale` and `precision` itself) -/
def fixedEntries (f : FixedP) (skip : List Bytes) : List (Bytes × JOut) :=
  [(b!"type", .str b!"fixed")] ++
  (match f.name.ns with | some n => [(b!"namespace", .str n)] | none => []) ++
  [(b!"name", .str f.name.name)] ++
  (match f.doc with | some d => [(b!"doc", .str d)] | none => []) ++
  [(b!"size", .num f.size)] ++
  (match f.aliases with | some al => [(b!"aliases", aliasesOut al)] | none => []) ++
  attrsOut (f.attrs.filter (fun kv => !skip.contains kv.1))

def logicalOut (base lt : Bytes) : JOut :=
  .obj [(b!"type", .str base), (b!"logicalType", .str lt)]

mutual
/-- `impl Serialize for Schema` -/
def toJson : PSchema → JOut
  | .ref n => .str n.full
  | .null => .str b!"null" | .boolean => .str b!"boolean" | .int => .str b!"int"
  | .long => .str b!"long" | .float => .str b!"float" | .double => .str b!"double"
  | .bytes => .str b!"bytes" | .string => .str b!"string"
  | .array items attrs => .obj ([(b!"type", .str b!"array"), (b!"items", toJson items)] ++ attrsOut attrs)
  | .map values attrs => .obj ([(b!"type", .str b!"map"), (b!"values", toJson values)] ++ attrsOut attrs)
  | .union branches => .arr (toJsonList branches)
  | .record name aliases doc fields attrs =>
    .obj ([(b!"type", .str b!"record")] ++
      (match name.ns with | some n => [(b!"namespace", .str n)] | none => []) ++
      [(b!"name", .str name.name)] ++
      (match doc with | some d => [(b!"doc", .str d)] | none => []) ++
      (match aliases with | some al => [(b!"aliases", aliasesOut al)] | none => []) ++
      [(b!"fields", .arr (toJsonFields fields))] ++
      attrsOut attrs)
  | .enum name aliases doc symbols default attrs =>
    .obj ([(b!"type", .str b!"enum")] ++
      (match name.ns with | some n => [(b!"namespace", .str n)] | none => []) ++
      [(b!"name", .str name.name), (b!"symbols", .arr (symbols.map .str))] ++
      (match aliases with | some al => [(b!"aliases", aliasesOut al)] | none => []) ++
      (match default with | some d => [(b!"default", .str d)] | none => []) ++
      (match doc with | some d => [(b!"doc", .str d)] | none => []) ++
      attrsOut attrs)
  | .fixed f => .obj (fixedEntries f [])
  | .decimal precision scale inner =>
    .obj ((match inner with
           | some f => fixedEntries f [b!"scale", b!"precision"]
           | none => [(b!"type", .str b!"bytes")]) ++
      [(b!"logicalType", .str b!"decimal"), (b!"scale", .num scale), (b!"precision", .num precision)])
  | .bigDecimal => logicalOut b!"bytes" b!"big-decimal"
  | .uuidBytes => logicalOut b!"bytes" b!"uuid"
  | .uuidString => logicalOut b!"string" b!"uuid"
  | .uuidFixed f => .obj (fixedEntries f [] ++ [(b!"logicalType", .str b!"uuid")])
  | .date => logicalOut b!"int" b!"date"
  | .timeMillis => logicalOut b!"int" b!"time-millis"
  | .timeMicros => logicalOut b!"long" b!"time-micros"
  | .tsMillis => logicalOut b!"long" b!"timestamp-millis"
  | .tsMicros => logicalOut b!"long" b!"timestamp-micros"
  | .tsNanos => logicalOut b!"long" b!"timestamp-nanos"
  | .ltsMillis => logicalOut b!"long" b!"local-timestamp-millis"
  | .ltsMicros => logicalOut b!"long" b!"local-timestamp-micros"
  | .ltsNanos => logicalOut b!"long" b!"local-timestamp-nanos"
  | .duration f => .obj (fixedEntries f [] ++ [(b!"logicalType", .str b!"duration")])
def toJsonList : List PSchema → List JOut
  | [] => []
  | s :: rest => toJson s :: toJsonList rest
/-- `impl Serialize for RecordField` -/
def toJsonFields : List (FieldHdr × PSchema) → List JOut
  | [] => []
  | (h, s) :: rest =>
    .obj ([(b!"name", .str h.name), (b!"type", toJson s)] ++
      (match h.default with | some d => [(b!"default", .raw d)] | none => []) ++
      (match h.doc with | some d => [(b!"doc", .str d)] | none => []) ++
      (if h.aliases.isEmpty then [] else [(b!"aliases", .arr (h.aliases.map .str))]) ++
      attrsOut h.attrs) :: toJsonFields rest
end

mutual
/-- every object is written with distinct keys (strict JSON) -/
def JOut.strict : JOut → Bool
  | .obj kvs => (kvs.map Prod.fst).Nodup && strictEntries kvs
  | .arr xs => strictList xs
  | _ => true
def strictList : List JOut → Bool
  | [] => true
  | x :: xs => x.strict && strictList xs
def strictEntries : List (Bytes × JOut) → Bool
  | [] => true
  | (_, v) :: rest => v.strict && strictEntries rest
end

mutual
/-- what a JSON reader (`serde_json::from_str`, `to_value`) makes of it: keys sorted, the last
occurrence of a repeated key wins -/
def JOut.toValue : JOut → Json
  | .str s => .str s
  | .num n => .int n
  | .arr xs => .arr (toValueList xs)
  | .obj kvs => .obj (toValueEntries kvs [])
  | .raw j => j
def toValueList : List JOut → List Json
  | [] => []
  | x :: xs => x.toValue :: toValueList xs
def toValueEntries : List (Bytes × JOut) → List (Bytes × Json) → List (Bytes × Json)
  | [], acc => acc
  | (k, v) :: rest, acc => toValueEntries rest (btInsert acc k v.toValue)
end

/-! ### Parsing Canonical Form -/

def reservedFields : List Bytes :=
  [b!"name", b!"type", b!"fields", b!"symbols", b!"items", b!"values", b!"size", b!"logicalType", b!"order", b!"doc",
   b!"aliases", b!"default", b!"precision", b!"scale"]

/-- `field_ordering_position` (0-based here) -/
def fieldPos (k : Bytes) : Option Nat := reservedFields.findIdx? (· == k)

def pcfString (s : Bytes) : Bytes := [34] ++ s ++ [34]

def natDigits : Nat → Nat → Bytes
  | 0, _ => []
  | fuel+1, n => if n < 10 then [UInt8.ofNat (48 + n)] else natDigits fuel (n / 10) ++ [UInt8.ofNat (48 + n % 10)]

def intText (i : Int) : Bytes :=
  if i < 0 then [45] ++ natDigits 40 i.natAbs else natDigits 40 i.natAbs

def joinComma : List Bytes → Bytes
  | [] => []
  | [x] => x
  | x :: rest => x ++ [44] ++ joinComma rest

/-- stable insertion by position (`sort_unstable_by_key` on distinct keys: object keys are
distinct, so are their positions) -/
def insertByPos (x : Nat × Bytes) : List (Nat × Bytes) → List (Nat × Bytes)
  | [] => [x]
  | y :: rest => if x.1 < y.1 then x :: y :: rest else y :: insertByPos x rest

/-- `str::parse::<i64>`: optional sign, then decimal digits, within the `i64` range -/
def parseI64 (s : Bytes) : Option Int :=
  let (neg, digits) := match s with
    | 45 :: rest => (true, rest)
    | 43 :: rest => (false, rest)
    | _ => (false, s)
  if digits.isEmpty || !digits.all (fun c => 48 ≤ c && c ≤ 57) then none
  else
    let n : Nat := digits.foldl (fun acc c => acc * 10 + (c.toNat - 48)) 0
    let v : Int := if neg then -(n : Int) else n
    if -9223372036854775808 ≤ v ∧ v ≤ 9223372036854775807 then some v else none

def isNamedType (t : Option Bytes) : Bool :=
  t == some b!"record" || t == some b!"enum" || t == some b!"fixed" || t == some b!"ref"

/-- the relevant keys of a node, by its kind (the specification's STRIP rule: a custom attribute may
carry the name of a key that is relevant for another kind) -/
def relevantKeys (t : Option Bytes) : List Bytes :=
  if t == some b!"record" || t == some b!"error" then [b!"name", b!"type", b!"fields"]
  else if t == some b!"enum" then [b!"name", b!"type", b!"symbols"]
  else if t == some b!"fixed" then [b!"name", b!"type", b!"size"]
  else if t == some b!"array" then [b!"type", b!"items"]
  else if t == some b!"map" then [b!"type", b!"values"]
  else [b!"name", b!"type"]

/-- `pcf_array`: `f` is the recursive call -/
def pcfArr (f : Json → List Bytes → Option (Bytes × List Bytes)) :
    List Json → List Bytes → List Bytes → Option (List Bytes × List Bytes)
  | [], defined, acc => some (acc.reverse, defined)
  | x :: rest, defined, acc =>
    match f x defined with
    | some (t, d) => pcfArr f rest d (t :: acc)
    | none => none

/-- the loop of `pcf_map` over the entries of an object with `nKeys` keys; `.inl` = the PRIMITIVE
rule fired, `.inr` = the collected `key:value` texts in canonical order; `none` = panic -/
def pcfEntries (f : Json → List Bytes → Option (Bytes × List Bytes)) (nKeys : Nat) (relevant : List Bytes)
    (name : Option Bytes) :
    List (Bytes × Json) → List Bytes → List (Nat × Bytes) → Option (Sum Bytes (List (Nat × Bytes)) × List Bytes)
  | [], defined, acc => some (.inr acc, defined)
  | (k, v) :: rest, defined, acc =>
    -- the PRIMITIVE rule: an object with the single key "type" whose value is a string
    if nKeys == 1 && k == b!"type" && v.asStr?.isSome then some (.inl (pcfString (v.asStr?.getD [])), defined)
    else if !relevant.contains k then pcfEntries f nKeys relevant name rest defined acc
    else match fieldPos k with
      | none => pcfEntries f nKeys relevant name rest defined acc
      | some pos =>
        if k == b!"name" && name.isSome then
          pcfEntries f nKeys relevant name rest defined (insertByPos (pos, pcfString k ++ [58] ++ pcfString (name.getD [])) acc)
        else if k == b!"size" then
          -- `s.parse::<u64>().expect(..)` / `v.as_u64().expect(..)`
          (match v with
           | .str s => (match parseI64 s with
             | some i => if 0 ≤ i then pcfEntries f nKeys relevant name rest defined (insertByPos (pos, pcfString k ++ [58] ++ intText i) acc) else none
             | none => none)
           | .int i => if 0 ≤ i ∧ i < 18446744073709551616 then pcfEntries f nKeys relevant name rest defined (insertByPos (pos, pcfString k ++ [58] ++ intText i) acc) else none
           | _ => none)
        else match v with
          | .str _ | .arr _ | .obj _ =>
            (match f v defined with
             | some (t, d) => pcfEntries f nKeys relevant name rest d (insertByPos (pos, pcfString k ++ [58] ++ t) acc)
             | none => none)
          | _ => none        -- `panic!("got invalid JSON value for canonical form of schema")`

/-- `parsing_canonical_form` on the serialized JSON value; the `HashSet` of defined names is
threaded through; `none` = the crate panics -/
def pcf : Nat → Json → List Bytes → Option (Bytes × List Bytes)
  | 0, _, _ => none
  | fuel+1, j, defined =>
    match j with
    | .str s => some (pcfString s, defined)
    | .arr xs =>
      (match pcfArr (pcf fuel) xs defined [] with
       | some (parts, d) => some ([91] ++ joinComma parts ++ [93], d)
       | none => none)
    | .obj kvs =>
      -- `pcf_map`
      let typ := objStr kvs b!"type"
      let name : Option Bytes :=
        if isNamedType typ then
          let ns := objStr kvs b!"namespace"
          let raw := (objStr kvs b!"name").getD []
          some ((match ns with | some n => n ++ [46] | none => []) ++ raw)
        else none
      match (match name with | some n => if defined.contains n then some n else none | none => none) with
      | some n => some (pcfString n, defined)
      | none =>
        let defined := match name with | some n => n :: defined | none => defined
        (match pcfEntries (pcf fuel) kvs.length (relevantKeys typ) name kvs defined [] with
         | some (.inl t, d) => some (t, d)
         | some (.inr fields, d) => some ([123] ++ joinComma (fields.map Prod.snd) ++ [125], d)
         | none => none)
    | _ => none

/-- `Schema::canonical_form` -/
def canonicalForm (fuel : Nat) (s : PSchema) : Option Bytes :=
  (pcf fuel (toJson s).toValue []).map Prod.fst

end Avro
