import AvroModel.SchemaParse
import AvroModel.SchemaSer
/-
Model of what `#[derive(AvroSchema)]` means (`avro_derive/src/{structs,fields,enums/*,case,utils}.rs`
plus the `AvroSchemaComponent` impls for std types in `avro/src/serde/derive.rs`) on a small
type-definition language: structs with named fields, unit-only enums, enums with data (the default
"union of records" representation); field types built from scalars, `Option`, `Vec`,
`HashMap<String, _>`, `Box` and other defined types; attributes `namespace`, `rename`, `rename_all`,
`doc`, `alias`, `skip`, explicit field defaults.  `deriveSchema` is `T::get_schema()`.

The set of names already defined (`named_schemas`) is threaded through; `none` stands for a panic
(`expect`) inside the generated code.
-/
namespace Avro

inductive RenameRule
  | none | lower | upper | pascal | camel | snake | screamingSnake | kebab | screamingKebab
  deriving Repr, DecidableEq, Inhabited

def isUpperA (c : UInt8) : Bool := 65 ≤ c && c ≤ 90
def isLowerA (c : UInt8) : Bool := 97 ≤ c && c ≤ 122
def toLowerA (c : UInt8) : UInt8 := if isUpperA c then c + 32 else c
def toUpperA (c : UInt8) : UInt8 := if isLowerA c then c - 32 else c

/-- `SnakeCase.apply_to_variant` (ASCII identifiers) -/
def snakeOfVariant : Bytes → Bool → Bytes
  | [], _ => []
  | c :: rest, first => (if !first && isUpperA c then [95, toLowerA c] else [toLowerA c]) ++ snakeOfVariant rest false

def replaceUnderscore (s : Bytes) : Bytes := s.map (fun c => if c == 95 then 45 else c)

/-- `RenameRule::apply_to_variant` -/
def RenameRule.variant (r : RenameRule) (v : Bytes) : Bytes :=
  match r with
  | .none | .pascal => v
  | .lower => v.map toLowerA
  | .upper => v.map toUpperA
  | .camel => (match v with | [] => [] | c :: rest => toLowerA c :: rest)
  | .snake => snakeOfVariant v true
  | .screamingSnake => (snakeOfVariant v true).map toUpperA
  | .kebab => replaceUnderscore (snakeOfVariant v true)
  | .screamingKebab => replaceUnderscore ((snakeOfVariant v true).map toUpperA)

/-- `PascalCase.apply_to_field` -/
def pascalOfField : Bytes → Bool → Bytes
  | [], _ => []
  | c :: rest, cap =>
    if c == 95 then pascalOfField rest true
    else if cap then toUpperA c :: pascalOfField rest false
    else c :: pascalOfField rest false

/-- `RenameRule::apply_to_field` -/
def RenameRule.field (r : RenameRule) (f : Bytes) : Bytes :=
  match r with
  | .none | .lower | .snake => f
  | .upper | .screamingSnake => f.map toUpperA
  | .pascal => pascalOfField f true
  | .camel => (match pascalOfField f true with | [] => [] | c :: rest => toLowerA c :: rest)
  | .kebab => replaceUnderscore f
  | .screamingKebab => replaceUnderscore (f.map toUpperA)

def RenameRule.or (a b : RenameRule) : RenameRule := match a with | .none => b | _ => a

inductive TyExpr
  | bool | i8 | i16 | i32 | i64 | u8 | u16 | u32 | f32 | f64 | string | char
  | u64 | i128 | u128                   -- named `fixed` types `org.apache.avro.rust.<ty>`
  | option (t : TyExpr) | vec (t : TyExpr) | map (t : TyExpr) | boxed (t : TyExpr)
  | named (ident : Bytes)
  deriving Repr, Inhabited

structure FieldDef where
  ident : Bytes
  ty : TyExpr
  rename : Option Bytes := none
  skip : Bool := false
  /-- `#[avro(default = "...")]` (JSON); without it the type's own `field_default()` -/
  default : Option Json := none
  aliases : List Bytes := []
  doc : Option Bytes := none
  /-- `#[serde(flatten)]`: the fields of the field's type take this field's place -/
  flatten : Bool := false
  deriving Repr, Inhabited

inductive VariantShape
  | unit
  | tuple (tys : List TyExpr)          -- newtype = one element
  | struct (fields : List FieldDef)
  deriving Repr, Inhabited

structure VariantDef where
  ident : Bytes
  rename : Option Bytes := none
  skip : Bool := false
  isDefault : Bool := false            -- `#[default]`
  /-- the variant's own `#[serde(rename_all = "..")]`: wins over the enum's `rename_all_fields` -/
  renameAll : RenameRule := .none
  shape : VariantShape := .unit
  deriving Repr, Inhabited

/-- the representations of an enum other than plain enum / union of records -/
inductive EnumRepr
  /-- `#[avro(repr = "bare_union")]` (with or without `#[serde(untagged)]`): a union of the payloads -/
  | bareUnion
  /-- `#[serde(tag = "..", content = "..")]`: a record of a tag enum and a content union -/
  | tagContent (tag content : Bytes)
  /-- `#[serde(tag = "..")]`: one record holding the tag and the fields of every variant -/
  | internalTag (tag : Bytes)
  deriving Repr, Inhabited

inductive TypeDef
  /-- `name` = `[namespace.]rename-or-ident` (`NamedTypeOptions::name`) -/
  | struct (ident name : Bytes) (doc : Option Bytes) (aliases : List Bytes) (renameAll : RenameRule) (fields : List FieldDef)
  | enum (ident name : Bytes) (doc : Option Bytes) (aliases : List Bytes) (renameAll renameAllFields : RenameRule)
      (variants : List VariantDef)
  /-- an enum in another representation than the default one (`EnumRepr`) -/
  | enumRepr (repr : EnumRepr) (ident name : Bytes) (doc : Option Bytes) (aliases : List Bytes)
      (renameAll renameAllFields : RenameRule) (variants : List VariantDef)
  /-- `#[serde(transparent)]` struct (the attribute excludes every other container attribute): the
  type stands for its one unskipped field -/
  | transparent (ident : Bytes) (fields : List FieldDef)
  deriving Repr, Inhabited

def VariantShape.isUnit : VariantShape → Bool
  | .unit => true
  | _ => false

/-- all unskipped variants are unit variants: the enum derives to a plain `enum` schema -/
def plainLike (variants : List VariantDef) : Bool :=
  (variants.filter (fun v => !v.skip)).all (fun v => v.shape.isUnit)

def TypeDef.ident : TypeDef → Bytes
  | .struct i _ _ _ _ _ => i
  | .enum i _ _ _ _ _ _ => i
  | .transparent i _ => i
  | .enumRepr _ i _ _ _ _ _ _ => i

abbrev DEnv := List TypeDef

def DEnv.find? (env : DEnv) (ident : Bytes) : Option TypeDef := List.find? (fun t => t.ident == ident) env

/-- `aliases(..)`: `Alias::new(alias)` for each - a panic (`none`) when one is no valid name -/
def deriveAliases (al : List Bytes) : Option (Option (List PName)) :=
  if al.isEmpty then some none else (al.mapM (fun a => PName.make a none)).map some

/-- the one unskipped field of a transparent struct -/
def transparentField (fields : List FieldDef) : Option FieldDef :=
  match fields.filter (fun f => !f.skip) with
  | [f] => some f
  | _ => none

/-- `T::field_default()` of a field type: `Option` has one (`null`); `Box` and transparent structs
pass their inner type's through (a transparent struct's field may also declare its own) -/
def typeFieldDefault (env : DEnv) : Nat → TyExpr → Option Json
  | 0, _ => none
  | _+1, .option _ => some .null
  | fuel+1, .boxed t => typeFieldDefault env fuel t
  | fuel+1, .named ident =>
    (match env.find? ident with
     | some (.transparent _ fields) =>
       (match transparentField fields with
        | some f => (match f.default with | some j => some j | none => typeFieldDefault env fuel f.ty)
        | none => none)
     | _ => none)
  | _+1, _ => none

def fieldName (f : FieldDef) (renameAll : RenameRule) : Bytes :=
  match f.rename with
  | some r => r
  | none => renameAll.field f.ident

def variantName (v : VariantDef) (renameAll : RenameRule) : Bytes :=
  match v.rename with
  | some r => r
  | none => renameAll.variant v.ident

/-- `format!("{n}")` (decimal digits, most significant first; `fuel` > `n` is always enough) -/
def natBytes (n : Nat) : Bytes := natDigits (n+1) n

/-- the result of a schema expression: the schema and the names defined so far -/
abbrev DOut := Option (PSchema × List PName)

/-- the result of `get_record_fields_in_ctxt`: `none` = a panic, `some (none, _)` = "not a record" -/
abbrev DFields := Option (Option (List (FieldHdr × PSchema)) × List PName)

/-- `RecordSchema::builder()…build()`: `calculate_lookup_table` asserts that the field names are distinct
(`none` = that panic) -/
def recordOf (pn : PName) (al : Option (List PName)) (doc : Option Bytes) (fs : List (FieldHdr × PSchema)) (attrs : Attrs)
    (named : List PName) : DOut :=
  if decide ((fs.map (fun f => f.1.name)).Nodup) then some (.record pn al doc fs attrs, named) else none

/-- named fields → record fields (`named_fields_to_record_fields`); `goF` = the record fields of a
flattened field's type, `dflt` = the field type's own default -/
def deriveFieldsWith (go : List PName → Option Bytes → TyExpr → DOut)
    (goF : List PName → Option Bytes → TyExpr → DFields) (dflt : TyExpr → Option Json) (renameAll : RenameRule) :
    List FieldDef → List PName → Option Bytes → Option (List (FieldHdr × PSchema) × List PName)
  | [], named, _ => some ([], named)
  | f :: rest, named, ns =>
    if f.skip then deriveFieldsWith go goF dflt renameAll rest named ns
    else if f.flatten then
      -- `if let Some(flattened_fields) = … { fields.extend(flattened_fields) } else { panic!(..) }`
      match goF named ns f.ty with
      | some (some inner, named') =>
        (match deriveFieldsWith go goF dflt renameAll rest named' ns with
         | none => none
         | some (fs, named'') => some (inner ++ fs, named''))
      | _ => none
    else match go named ns f.ty with
      | none => none
      | some (s, named') =>
        match deriveFieldsWith go goF dflt renameAll rest named' ns with
        | none => none
        | some (fs, named'') =>
          let hdr : FieldHdr := { name := fieldName f renameAll, doc := f.doc, aliases := f.aliases,
                                  default := (match f.default with | some j => some j | none => dflt f.ty), attrs := [] }
          some ((hdr, s) :: fs, named'')

/-- unnamed fields → record fields `field_0`, `field_1`, … (`unnamed_fields_to_record_fields`) -/
def deriveTupleFieldsWith (go : List PName → Option Bytes → TyExpr → DOut) (dflt : TyExpr → Option Json) :
    List TyExpr → Nat → List PName → Option Bytes → Option (List (FieldHdr × PSchema) × List PName)
  | [], _, named, _ => some ([], named)
  | t :: rest, i, named, ns =>
    match go named ns t with
    | none => none
    | some (s, named') =>
      match deriveTupleFieldsWith go dflt rest (i+1) named' ns with
      | none => none
      | some (fs, named'') =>
        let hdr : FieldHdr := { name := b!"field_" ++ natBytes i, doc := none, aliases := [], default := dflt t, attrs := [] }
        some ((hdr, s) :: fs, named'')

/-- one variant of a union-of-records enum (`variant_to_schema_expr`, `With::Trait`) -/
def deriveVariantWith (go : List PName → Option Bytes → TyExpr → DOut)
    (goF : List PName → Option Bytes → TyExpr → DFields) (dflt : TyExpr → Option Json) (renameAll renameAllFields : RenameRule)
    (v : VariantDef) (named : List PName) (ns : Option Bytes) : DOut :=
  let name := variantName v renameAll
  match PName.make name ns with
  | none => none
  | some pn =>
    match v.shape with
    | .unit => some (.record pn none none [] [], named)
    | .tuple tys =>
      (match deriveTupleFieldsWith go dflt tys 0 named ns with
       | none => none
       | some (fs, named') =>
         let attrs : Attrs :=
           if tys.length == 1 then [(b!"org.apache.avro.rust.tuple", .bool true), (b!"org.apache.avro.rust.union_of_records", .bool true)]
           else [(b!"org.apache.avro.rust.tuple", .bool true)]
         recordOf pn none none fs attrs named')
    | .struct fields =>
      (match deriveFieldsWith go goF dflt (v.renameAll.or renameAllFields) fields named ns with
       | none => none
       | some (fs, named') => recordOf pn none none fs [] named')

def deriveVariantsWith (go : List PName → Option Bytes → TyExpr → DOut)
    (goF : List PName → Option Bytes → TyExpr → DFields) (dflt : TyExpr → Option Json) (renameAll renameAllFields : RenameRule) :
    List VariantDef → List PName → Option Bytes → Option (List PSchema × List PName)
  | [], named, _ => some ([], named)
  | v :: rest, named, ns =>
    if v.skip then deriveVariantsWith go goF dflt renameAll renameAllFields rest named ns
    else match deriveVariantWith go goF dflt renameAll renameAllFields v named ns with
      | none => none
      | some (s, named') =>
        match deriveVariantsWith go goF dflt renameAll renameAllFields rest named' ns with
        | none => none
        | some (ss, named'') => some (s :: ss, named'')

/-- a variant with `transparent_newtype` and `unit_is_null` (bare unions, tag + content): a unit variant
is `null`, a newtype variant is its payload's schema, the others are records as usual -/
def deriveVariantBareWith (go : List PName → Option Bytes → TyExpr → DOut)
    (goF : List PName → Option Bytes → TyExpr → DFields) (dflt : TyExpr → Option Json) (renameAll renameAllFields : RenameRule)
    (v : VariantDef) (named : List PName) (ns : Option Bytes) : DOut :=
  match v.shape with
  | .unit => some (.null, named)
  | .tuple [t] => go named ns t
  | _ => deriveVariantWith go goF dflt renameAll renameAllFields v named ns

def deriveVariantsBareWith (go : List PName → Option Bytes → TyExpr → DOut)
    (goF : List PName → Option Bytes → TyExpr → DFields) (dflt : TyExpr → Option Json) (renameAll renameAllFields : RenameRule) :
    List VariantDef → List PName → Option Bytes → Option (List PSchema × List PName)
  | [], named, _ => some ([], named)
  | v :: rest, named, ns =>
    if v.skip then deriveVariantsBareWith go goF dflt renameAll renameAllFields rest named ns
    else match deriveVariantBareWith go goF dflt renameAll renameAllFields v named ns with
      | none => none
      | some (s, named') =>
        match deriveVariantsBareWith go goF dflt renameAll renameAllFields rest named' ns with
        | none => none
        | some (ss, named'') => some (s :: ss, named'')

/-- is this the schema of an array / a map with scalar items (all the model compares for equality) -/
def simpleCollectionEq : PSchema → PSchema → Option Bool
  | .array a _, .array b _ => if a.baseKind == b.baseKind && a.pname?.isNone && b.pname?.isNone then some true else some false
  | .map a _, .map b _ => if a.baseKind == b.baseKind && a.pname?.isNone && b.pname?.isNone then some true else some false
  | _, _ => none

/-- `UnionSchemaBuilder::variant_ignore_duplicates` for every schema in turn (`none` = the `expect` panics).
A reference to a name that is already there is ignored; another schema under a name that is
already there is an error (the model does not compare definitions: the derive never produces the
same definition twice); a second array / map is ignored when it is the same collection of scalars
and an error otherwise (collections of named types are not compared by the model: `none`);
any other schema of a kind that is already there is silently ignored -/
def unionIgnoreDup : List PSchema → List PName → List (BaseKind × PSchema) → List PSchema → Option (List PSchema)
  | [], _, _, acc => some acc.reverse
  | s :: rest, names, kinds, acc =>
    match s.pname? with
    | some n =>
      if names.contains n then
        (match s with
         | .ref _ => unionIgnoreDup rest names kinds acc
         | _ => none)
      else unionIgnoreDup rest (n :: names) kinds (s :: acc)
    | none =>
      let k := s.baseKind
      if k == .union then none
      else match kinds.find? (fun e => e.1 == k) with
        | some (_, old) =>
          if k == .array || k == .map then
            (match simpleCollectionEq old s with
             | some true => unionIgnoreDup rest names kinds acc
             | _ => none)
          else unionIgnoreDup rest names kinds acc
        | none => unionIgnoreDup rest names ((k, s) :: kinds) (s :: acc)

/-- the two fields of an adjacently tagged enum's record -/
def tagContentFields (tagName : PName) (tag content : Bytes) (symbols : List Bytes) (branches : List PSchema) :
    List (FieldHdr × PSchema) :=
  let hasNull := branches.any (fun b => match b with | .null => true | _ => false)
  [ ({ name := tag, doc := none, aliases := [], default := none, attrs := [] }, .enum tagName none none symbols none []),
    ({ name := content, doc := none, aliases := [], default := if hasNull then some .null else none, attrs := [] }, .union branches) ]

/-- the fields the variants of an internally tagged enum contribute: a struct variant its fields, a
newtype variant the record fields of its payload type (a panic when it has none), a unit variant nothing -/
def internalTagFieldsWith (go : List PName → Option Bytes → TyExpr → DOut)
    (goF : List PName → Option Bytes → TyExpr → DFields) (dflt : TyExpr → Option Json) (renameAllFields : RenameRule) :
    List VariantDef → List PName → Option Bytes → Option (List (FieldHdr × PSchema) × List PName)
  | [], named, _ => some ([], named)
  | v :: rest, named, ns =>
    if v.skip then internalTagFieldsWith go goF dflt renameAllFields rest named ns
    else
      let mine : Option (List (FieldHdr × PSchema) × List PName) :=
        match v.shape with
        | .unit => some ([], named)
        | .struct fields => deriveFieldsWith go goF dflt (v.renameAll.or renameAllFields) fields named ns
        | .tuple [t] => (match goF named ns t with | some (some fs, named') => some (fs, named') | _ => none)
        | .tuple _ => none
      match mine with
      | none => none
      | some (fs, named') =>
        match internalTagFieldsWith go goF dflt renameAllFields rest named' ns with
        | none => none
        | some (more, named'') => some (fs ++ more, named'')

def tagStringField (tag : Bytes) : FieldHdr × PSchema :=
  ({ name := tag, doc := none, aliases := [], default := none, attrs := [] }, .string)

/-- `u64`, `i128`, `u128`: the named type `fixed org.apache.avro.rust.<ty>`, defined at its first use
and referred to afterwards -/
def rustFixed (ty : Bytes) (size : Nat) (named : List PName) : DOut :=
  let pn : PName := { ns := some b!"org.apache.avro.rust", name := ty }
  if named.contains pn then some (.ref pn, named)
  else some (.fixed { name := pn, aliases := none, doc := none, size := size, attrs := [] }, pn :: named)

mutual
/-- `<T as AvroSchemaComponent>::get_schema_in_ctxt(named_schemas, enclosing_namespace)` -/
def deriveTy (env : DEnv) : Nat → List PName → Option Bytes → TyExpr → DOut
  | 0, _, _, _ => none
  | fuel+1, named, ns, t =>
    let go := deriveTy env fuel
    let goF := deriveRec env fuel
    let dflt := typeFieldDefault env fuel
    match t with
    | .bool => some (.boolean, named)
    | .i8 | .i16 | .i32 | .u8 | .u16 => some (.int, named)
    | .i64 | .u32 => some (.long, named)
    | .f32 => some (.float, named)
    | .f64 => some (.double, named)
    | .string | .char => some (.string, named)
    | .u64 => rustFixed b!"u64" 8 named
    | .i128 => rustFixed b!"i128" 16 named
    | .u128 => rustFixed b!"u128" 16 named
    | .boxed t' => go named ns t'
    | .vec t' => (go named ns t').map (fun r => (.array r.1 [], r.2))
    | .map t' => (go named ns t').map (fun r => (.map r.1 [], r.2))
    | .option t' =>
      (match go named ns t' with
       | none => none
       | some (s, named') =>
         -- `UnionSchema::new(vec![Null, s]).expect(..)`
         match unionNew [.null, s] [] [] with
         | some _ => some (.union [.null, s], named')
         | none => none)
    | .named ident =>
      match env.find? ident with
      | none => none
      | some (.transparent _ fields) =>
        -- the schema of the one unskipped field; nothing is registered
        (match transparentField fields with
         | some f => go named ns f.ty
         | none => none)
      | some (.enumRepr repr _ name doc aliases renameAll renameAllFields variants) =>
        (match PName.make name ns with
         | none => none
         | some pn =>
           match repr with
           | .bareUnion =>
             -- not a named type: built on every use, inside the namespace of the enum's name
             (match deriveVariantsBareWith go goF dflt renameAll renameAllFields variants named pn.ns with
              | none => none
              | some (ss, named') =>
                match unionNew ss [] [] with
                | some _ => some (.union ss, named')
                | none => none)
           | .tagContent tag content =>
             if named.contains pn then some (.ref pn, named)
             else match deriveAliases aliases with
               | none => none
               | some al =>
                 match deriveVariantsBareWith go goF dflt renameAll renameAllFields variants (pn :: named) pn.ns with
                 | none => none
                 | some (ss, named') =>
                   match unionIgnoreDup ss [] [] [], PName.make tag pn.ns with
                   | some branches, some tagName =>
                     let symbols := (variants.filter (fun v => !v.skip)).map (fun v => variantName v renameAll)
                     recordOf pn al doc (tagContentFields tagName tag content symbols branches) [] named'
                   | _, _ => none
           | .internalTag tag =>
             if named.contains pn then some (.ref pn, named)
             else match deriveAliases aliases with
               | none => none
               | some al =>
                 match internalTagFieldsWith go goF dflt renameAllFields variants (pn :: named) pn.ns with
                 | none => none
                 | some (fs, named') => recordOf pn al doc (tagStringField tag :: fs) [] named')
      | some (.struct _ name doc aliases renameAll fields) =>
        (match PName.make name ns with
         | none => none
         | some pn =>
           if named.contains pn then some (.ref pn, named)
           else match deriveAliases aliases with
             | none => none
             | some al =>
               match deriveFieldsWith go goF dflt renameAll fields (pn :: named) pn.ns with
               | none => none
               | some (fs, named') => recordOf pn al doc fs [] named')
      | some (.enum _ name doc aliases renameAll renameAllFields variants) =>
        if plainLike variants then
          -- a plain enum
          (match PName.make name ns with
           | none => none
           | some pn =>
             if named.contains pn then some (.ref pn, named)
             else match deriveAliases aliases with
               | none => none
               | some al =>
                 let live := variants.filter (fun v => !v.skip)
                 let symbols := live.map (fun v => variantName v renameAll)
                 let default := (live.find? (fun v => v.isDefault)).map (fun v => variantName v renameAll)
                 some (.enum pn al doc symbols default [], pn :: named))
        else
          -- a union of records: not a named type itself, every use builds the variants again
          (match deriveVariantsWith go goF dflt renameAll renameAllFields variants named ns with
           | none => none
           | some (ss, named') =>
             match unionNew ss [] [] with
             | some _ => some (.union ss, named')
             | none => none)

/-- `<T as AvroSchemaComponent>::get_record_fields_in_ctxt(named_schemas, enclosing_namespace)`: what
`#[serde(flatten)]` splices in.  For a derived struct the fields are built in the CALLER's context:
the struct's name is not registered and its own namespace is not entered. -/
def deriveRec (env : DEnv) : Nat → List PName → Option Bytes → TyExpr → DFields
  | 0, _, _, _ => none
  | fuel+1, named, ns, t =>
    match t with
    | .boxed t' => deriveRec env fuel named ns t'
    | .named ident =>
      (match env.find? ident with
       | none => none
       | some (.transparent _ fields) =>
         (match transparentField fields with
          | some f => deriveRec env fuel named ns f.ty
          | none => none)
       | some (.struct _ _ _ _ renameAll fields) =>
         (match deriveFieldsWith (deriveTy env fuel) (deriveRec env fuel) (typeFieldDefault env fuel) renameAll fields named ns with
          | none => none
          | some (fs, named') => some (some fs, named'))
       | some (.enum _ _ _ _ _ _ _) => some (none, named)
       | some (.enumRepr repr _ _ _ _ renameAll renameAllFields variants) =>
         (match repr with
          | .bareUnion => some (none, named)
          | .tagContent tag content =>
            (match deriveVariantsBareWith (deriveTy env fuel) (deriveRec env fuel) (typeFieldDefault env fuel) renameAll renameAllFields variants named ns with
             | none => none
             | some (ss, named') =>
               match unionIgnoreDup ss [] [] [], PName.make tag ns with
               | some branches, some tagName =>
                 let symbols := (variants.filter (fun v => !v.skip)).map (fun v => variantName v renameAll)
                 some (some (tagContentFields tagName tag content symbols branches), named')
               | _, _ => none)
          | .internalTag tag =>
            (match internalTagFieldsWith (deriveTy env fuel) (deriveRec env fuel) (typeFieldDefault env fuel) renameAllFields variants named ns with
             | none => none
             | some (fs, named') => some (some (tagStringField tag :: fs), named'))))
    | _ => some (none, named)
end

/-- `T::get_schema()` for the defined type `ident` -/
def deriveSchema (env : DEnv) (fuel : Nat) (ident : Bytes) : Option PSchema :=
  (deriveTy env fuel [] none (.named ident)).map Prod.fst

end Avro
