import AvroModel.Varint
import AvroModel.Prim
import AvroModel.Schema
/-
Model of `avro/src/encode.rs::encode_internal`, arm for arm (value first, then schema), writing
into an in-memory buffer.  The record arm looks values up by name (`lookup`), so the recursion is
not structural in the value; `fuel` is decremented on every recursive call and `Err.fuel` is
returned when it runs out (the Rust recursion is bounded by the value's depth).

Sink behaviour (short writes, errors) is the subject of `Sink.lean` / C13; here every write
delivers all of its bytes.
-/
namespace Avro

/-- `encode_bytes`: length as long, then the bytes. -/
def encBytes (b : Bytes) : Bytes := encLong b.length ++ b

/-- follow a `Schema::Ref` through the names table (first lines of `encode_internal`). -/
def deref (env : Names) : Schema → Except Err Schema
  | .ref n => match env.find? n with
    | some s => .ok s
    | none => .error .schema
  | s => .ok s

/-- `HashMap` built by inserting `(name, value)` in order: the **last** duplicate wins. -/
def lookupLast (fs : List (Bytes × Value)) (k : Bytes) : Option Value :=
  match fs with
  | [] => none
  | (n, v) :: rest =>
    match lookupLast rest k with
    | some v' => some v'
    | none => if n = k then some v else none

/-- `lookup.get(name).or_else(|| aliases.iter().find_map(|a| lookup.get(a)))`. -/
def lookupField (fs : List (Bytes × Value)) (m : FieldMeta) : Option Value :=
  match lookupLast fs m.name with
  | some v => some v
  | none => m.aliases.findSome? (lookupLast fs)

/-- `union.schemas.iter().position(|s| *s == Schema::Null)`. -/
def nullIndex : List Schema → Nat → Option Nat
  | [], _ => none
  | .null :: _, i => some i
  | _ :: rest, i => nullIndex rest (i+1)

def indexOfSym (syms : List Bytes) (s : Bytes) : Option Nat :=
  let i := syms.findIdx (· = s)
  if i < syms.length then some i else none

/-- `*i as i32` for `i : u32`. -/
def u32AsI32 (i : Nat) : Int := (BitVec.ofNat 32 i).toInt

/-- concatenate the encodings of a list (array items). -/
def concatMapE {α : Type} (f : α → Except Err Bytes) : List α → Except Err Bytes
  | [] => .ok []
  | x :: xs =>
    match f x with
    | .error e => .error e
    | .ok b => match concatMapE f xs with
      | .ok bs => .ok (b ++ bs)
      | .error e => .error e

/-- one map entry: key as string, then the value. -/
def encEntryWith (f : Value → Except Err Bytes) (kv : Bytes × Value) : Except Err Bytes :=
  match f kv.2 with
  | .ok b => .ok (encBytes kv.1 ++ b)
  | .error e => .error e

/-- the record arm: iterate over the *schema's* fields, looking each value up by name/alias. -/
def encodeFieldsWith (f : Schema → Value → Except Err Bytes) :
    List (FieldMeta × Schema) → List (Bytes × Value) → Except Err Bytes
  | [], _ => .ok []
  | (m, fs) :: rest, vfs =>
    match lookupField vfs m with
    | none => .error .mismatch
    | some v =>
      match f fs v with
      | .error e => .error e
      | .ok b => match encodeFieldsWith f rest vfs with
        | .ok bs => .ok (b ++ bs)
        | .error e => .error e

/-- `Value::Record` under a union schema: try every branch in order into a scratch buffer;
the first branch that encodes wins. -/
def encodeTrialWith (f : Schema → Except Err Bytes) : List Schema → Nat → Except Err Bytes
  | [], _ => .error .mismatch
  | b :: bs, idx =>
    match f b with
    | .ok out => .ok (encLong idx ++ out)
    | .error _ => encodeTrialWith f bs (idx+1)

/-- `encode_internal`. -/
def encode (env : Names) : Nat → Schema → Value → Except Err Bytes
  | 0, _, _ => .error .fuel
  | fuel+1, s0, v =>
    match deref env s0 with
    | .error e => .error e
    | .ok s =>
    match v with
    | .null =>
      match s with
      | .union bs => match nullIndex bs 0 with
        | some p => .ok (encLong p)
        | none => .error .mismatch
      | _ => .ok []
    | .boolean b => .ok [if b then 1 else 0]
    | .int n => .ok (encInt n)
    | .date n => .ok (encInt n)
    | .timeMillis n => .ok (encInt n)
    | .long n => .ok (encLong n)
    | .longL _ n => .ok (encLong n)
    | .float bits => .ok (leBytes 4 bits.toNat)
    | .double bits => .ok (leBytes 8 bits.toNat)
    | .decimal i len =>
      match s with
      | .decimal _ _ (.fixed _ size) =>
        match signExtend i size with
        | .error e => .error e
        | .ok bytes => .ok bytes   -- length = size by construction; then written as a fixed
      | .decimal _ _ .bytes =>
        match signExtend i len with
        | .error e => .error e
        | .ok bytes => .ok (encBytes bytes)
      | _ => .error .mismatch
    | .duration mo d ms => .ok (durationBytes mo d ms)
    | .uuid b =>
      match s with
      | .uuidString | .string => .ok (encBytes (uuidToText b))
      | .uuidBytes | .bytes => .ok (encBytes b)
      | .uuidFixed _ size | .fixed _ size => if size ≠ 16 then .error .fixedSize else .ok b
      | _ => .error .mismatch
    | .bigDecimal u sc => .ok (encBytes (encBytes (toSignedBE u) ++ encLong sc))
    | .bytes b =>
      match s with
      | .bytes | .uuidBytes => .ok (encBytes b)
      | .fixed _ _ => .ok b
      | _ => .error .mismatch
    | .string u =>
      match s with
      | .string | .uuidString => .ok (encBytes u)
      | .enum _ syms _ => match indexOfSym syms u with
        | some i => .ok (encInt i)
        | none => .error .mismatch
      | _ => .error .mismatch
    | .fixed _ b => .ok b
    | .enum i _ => .ok (encInt (u32AsI32 i))
    | .union idx item =>
      match s with
      | .union bs =>
        match bs[idx]? with
        | none => .error .panic      -- `.expect("Invalid Union validation occurred")`: panic
        | some inner =>
          match encode env fuel inner item with
          | .ok b => .ok (encLong idx ++ b)
          | .error e => .error e
      | _ => .error .mismatch
    | .array items =>
      match s with
      | .array inner =>
        if items.isEmpty then .ok [0]
        else match concatMapE (encode env fuel inner) items with
          | .ok b => .ok (encLong items.length ++ b ++ [0])
          | .error e => .error e
      | _ => .error .mismatch
    | .map es =>
      match s with
      | .map inner =>
        if es.isEmpty then .ok [0]
        else match concatMapE (encEntryWith (encode env fuel inner)) es with
          | .ok b => .ok (encLong es.length ++ b ++ [0])
          | .error e => .error e
      | _ => .error .mismatch
    | .record vfs =>
      match s with
      | .record _ sfs => encodeFieldsWith (encode env fuel) sfs vfs
      | .union bs => encodeTrialWith (fun b => encode env fuel b (.record vfs)) bs 0
      | _ => .error .mismatch

end Avro
