import AvroModel.Encode
import AvroModel.Compat
/-
Model of the schema-aware serde serializer (`serde/ser_schema/{mod,block,tuple,record/mod,
record/field_default}.rs`) for the fragment of the serde data model the property's second sentence
names - scalars, char/str, bytes, options, unit, unit structs, unit variants, newtype structs,
sequences, tuples, tuple structs, string-keyed maps, structs (fields in any order, skipped fields
filled from their defaults) - over schemas whose only unions are the two-branch `[null, T]` /
`[T, null]` an `Option` maps to.  Every other union goes through `UnionSerializer`, which is not
modelled: the model answers `unsupported` there and the harness sends no such row.

The serializer returns the number of bytes it wrote; the model computes that number the way the
crate does (by accumulation), separately from the bytes.
-/
namespace Avro

/-- the serde data model (what a `Serialize` impl calls on the serializer), recorded by the harness -/
inductive SerdeVal
  | bool (b : Bool)
  | i8 (n : Int) | i16 (n : Int) | i32 (n : Int) | i64 (n : Int)
  | u8 (n : Int) | u16 (n : Int) | u32 (n : Int) | u64 (n : Int)
  | f32 (bits : UInt32) | f64 (bits : UInt64)
  | char (utf8 : Bytes)
  | str (utf8 : Bytes)
  | bytes (b : Bytes)
  | none
  | some (v : SerdeVal)
  | unit
  | unitStruct (name : Bytes)
  | unitVariant (name : Bytes) (index : Nat) (variant : Bytes)
  | newtypeStruct (name : Bytes) (v : SerdeVal)
  | seq (len : Option Nat) (items : List SerdeVal)
  | tuple (items : List SerdeVal)
  | tupleStruct (name : Bytes) (items : List SerdeVal)
  | map (len : Option Nat) (entries : List (SerdeVal × SerdeVal))
  /-- `serialize_struct`: fields in the order the type gives them; `none` = `skip_field` -/
  | struct (name : Bytes) (fields : List (Bytes × Option SerdeVal))
  deriving Repr, Inhabited

abbrev SerOut := Except Err (Bytes × Nat)

def Schema.isIntLikeS : Schema → Bool
  | .int | .date | .timeMillis => true
  | _ => false

def Schema.isLongLikeS : Schema → Bool
  | .long | .longL _ => true
  | _ => false

/-- `SchemaAwareSerializer::new`: a reference is replaced by its definition -/
def derefS (env : Names) : Schema → Option Schema
  | .ref n => env.find? n
  | s => some s

/-- the index of the `null` branch of a two-branch union (`serialize_none` / `serialize_some`) -/
def optionNullIndex (branches : List Schema) : Option Nat :=
  if branches.length == 2 then nullIndex branches 0 else none

def withLen (b : Bytes) : Bytes × Nat :=
  let h := encLong b.length
  (h ++ b, h.length + b.length)

def varint (n : Int) : Bytes × Nat :=
  let b := encLong n
  (b, b.length)

/-- `record.lookup`: field names and aliases to positions, later entries overwrite earlier ones -/
def lookupPos (fields : List (FieldMeta × Schema)) (key : Bytes) : Option Nat :=
  let rec go (fs : List (FieldMeta × Schema)) (i : Nat) (acc : Option Nat) : Option Nat :=
    match fs with
    | [] => acc
    | (m, _) :: rest => go rest (i+1) (if m.name == key || m.aliases.contains key then some i else acc)
  go fields 0 none

/-- `Direct` block serializer: the declared length, the items, the end marker -/
def directBlocks (ser : SerdeVal → SerOut) (keyed : Bool) (serKey : SerdeVal → SerOut) (len : Nat) :
    List (SerdeVal × SerdeVal) → Bytes → Nat → SerOut
  | [], out, cnt => .ok (out ++ [0], cnt + 1)
  | (k, v) :: rest, out, cnt =>
    match (if keyed then serKey k else .ok ([], 0)) with
    | .error e => .error e
    | .ok (kb, kn) =>
      match ser v with
      | .error e => .error e
      | .ok (vb, vn) => directBlocks ser keyed serKey len rest (out ++ kb ++ vb) (cnt + kn + vn)

/-- one block of the `Buffered` serializer: negative count, byte size, data -/
def writeBlock (items : Nat) (buffer out : Bytes) (cnt : Nat) : Bytes × Nat :=
  let h1 := encLong (0 - (items : Int))
  let h2 := encLong buffer.length
  (out ++ h1 ++ h2 ++ buffer, cnt + h1.length + h2.length + buffer.length)

/-- `Buffered` block serializer with target block size `target` -/
def bufferedBlocks (ser : SerdeVal → SerOut) (keyed : Bool) (serKey : SerdeVal → SerOut) (target : Nat) :
    List (SerdeVal × SerdeVal) → Bytes → Nat → Bytes → Nat → SerOut
  | [], buffer, items, out, cnt =>
    let (out, cnt) := if items > 0 then writeBlock items buffer out cnt else (out, cnt)
    .ok (out ++ [0], cnt + 1)
  | (k, v) :: rest, buffer, items, out, cnt =>
    match (if keyed then serKey k else .ok ([], 0)) with
    | .error e => .error e
    | .ok (kb, _) =>
      match ser v with
      | .error e => .error e
      | .ok (vb, _) =>
        let buffer := buffer ++ kb ++ vb
        let items := items + 1
        if buffer.length ≥ target then
          let (out, cnt) := writeBlock items buffer out cnt
          bufferedBlocks ser keyed serKey target rest [] 0 out cnt
        else bufferedBlocks ser keyed serKey target rest buffer items out cnt

/-- `BlockSerializer::new` -/
def blockSer (tbs : Option Nat) (ser : SerdeVal → SerOut) (keyed : Bool) (serKey : SerdeVal → SerOut)
    (len : Option Nat) (entries : List (SerdeVal × SerdeVal)) : SerOut :=
  match len, tbs with
  | some n, none =>
    let (h, hn) := if n != 0 then varint n else ([], 0)
    directBlocks ser keyed serKey n entries h hn
  | _, _ => bufferedBlocks ser keyed serKey (tbs.getD 1024) entries [] 0 [] 0

/-- `ManyTupleSerializer`: the elements against the record's fields, in order, all of them -/
def tupleFields (ser : Schema → SerdeVal → SerOut) : List (FieldMeta × Schema) → List SerdeVal → Bytes → Nat → SerOut
  | [], [], out, cnt => .ok (out, cnt)
  | (_, s) :: fs, x :: xs, out, cnt =>
    (match ser s x with
     | .error e => .error e
     | .ok (b, n) => tupleFields ser fs xs (out ++ b) (cnt + n))
  | _, _, _, _ => .error .mismatch

/-- the state of a `RecordSerializer` -/
structure RecSt where
  pos : Nat := 0
  cache : List (Nat × Bytes) := []
  out : Bytes := []
  cnt : Nat := 0

/-- write the cached fields that have become next (`while let Some(bytes) = cache.remove(&field_position)`) -/
def flushCache : Nat → RecSt → RecSt
  | 0, st => st
  | fuel+1, st =>
    match st.cache.find? (fun e => e.1 == st.pos) with
    | some (_, b) =>
      flushCache fuel { pos := st.pos + 1, cache := st.cache.filter (fun e => e.1 != st.pos), out := st.out ++ b,
                        cnt := st.cnt + b.length }
    | none => st

/-- `RecordSerializer::serialize_next_field` with the field's bytes already produced by `bytesOf` -/
def nextField (nFields : Nat) (st : RecSt) (position : Nat) (bytesOf : SerOut) : Except Err RecSt :=
  if st.pos == position then
    match bytesOf with
    | .error e => .error e
    | .ok (b, n) => .ok (flushCache (nFields + 1) { st with pos := st.pos + 1, out := st.out ++ b, cnt := st.cnt + n })
  else if st.pos < position then
    match bytesOf with
    | .error e => .error e
    | .ok (b, _) =>
      if st.cache.any (fun e => e.1 == position) then .error .mismatch      -- FieldNameDuplicate
      else .ok { st with cache := st.cache ++ [(position, b)] }
  else .error .mismatch                                                       -- FieldNameDuplicate

/-- what `SchemaAwareRecordFieldDefault` serializes for a default (`none`: not modelled / an error) -/
def defaultToSerde (env : Names) : Nat → Json → Schema → Option SerdeVal
  | 0, _, _ => none
  | fuel+1, j, s =>
    match j, s with
    | .null, .null => some .unit
    | .bool b, .boolean => some (.bool b)
    | .int n, .int | .int n, .date | .int n, .timeMillis =>
      if -2147483648 ≤ n ∧ n ≤ 2147483647 then some (.i32 n) else none
    | .int n, .long | .int n, .longL _ => if -9223372036854775808 ≤ n ∧ n ≤ 9223372036854775807 then some (.i64 n) else none
    | .str u, .bytes | .str u, .fixed _ _ | .str u, .uuidBytes | .str u, .uuidFixed _ _ | .str u, .bigDecimal
    | .str u, .decimal _ _ _ | .str u, .duration _ _ => some (.bytes u)
    | .str u, .string | .str u, .uuidString => some (.str u)
    | .str u, .enum _ syms _ => (indexOfSym syms u).map (fun i => .unitVariant [] i u)
    | .arr xs, .array items =>
      (xs.mapM (fun x => defaultToSerde env fuel x items)).map (fun l => .seq (some l.length) l)
    | .obj kvs, .map values =>
      (kvs.mapM (fun kv => (defaultToSerde env fuel kv.2 values).map (fun v => (SerdeVal.str kv.1, v)))).map
        (fun l => .map (some l.length) l)
    | j, .union branches =>
      (match optionNullIndex branches with
       | some ni =>
         (match j with
          | .null => some .none
          | _ => match branches[(ni + 1) % 2]? with
            | some b => (defaultToSerde env fuel j b).map .some
            | none => none)
       | none => none)
    | _, _ => none

/-- the fields a `Serialize` impl hands to a `RecordSerializer`, then `end()` (defaults for the rest) -/
def recordFields (env : Names) (ser : Schema → SerdeVal → SerOut) (fields : List (FieldMeta × Schema)) :
    List (Bytes × Option SerdeVal) → RecSt → Except Err RecSt
  | [], st => .ok st
  | (key, val) :: rest, st =>
    match lookupPos fields key with
    | none => .error .mismatch                                               -- GetField
    | some position =>
      match fields[position]? with
      | none => .error .mismatch
      | some (m, s) =>
        let bytesOf : SerOut := match val with
          | some v => ser s v
          | none => match m.default with
            | none => .error .mismatch                                       -- MissingDefaultForSkippedField
            | some d => match defaultToSerde env 50 d s with
              | some dv => ser s dv
              | none => .error .other
        match nextField fields.length st position bytesOf with
        | .error e => .error e
        | .ok st' => recordFields env ser fields rest st'

/-- `RecordSerializer::end`: the fields never given are written from their defaults, in order -/
def recordEnd (env : Names) (ser : Schema → SerdeVal → SerOut) (fields : List (FieldMeta × Schema)) :
    Nat → RecSt → Except Err RecSt
  | 0, st => if st.pos == fields.length then .ok st else .error .fuel
  | fuel+1, st =>
    if st.pos == fields.length then .ok st
    else match fields[st.pos]? with
      | none => .error .mismatch
      | some (m, s) =>
        match m.default with
        | none => .error .mismatch
        | some d =>
          let bytesOf : SerOut := match defaultToSerde env 50 d s with
            | some dv => ser s dv
            | none => .error .other
          match nextField fields.length st st.pos bytesOf with
          | .error e => .error e
          | .ok st' => recordEnd env ser fields fuel st'

/-- the serializer; `tbs` = `Config::target_block_size` -/
def serS (tbs : Option Nat) (env : Names) : Nat → Schema → SerdeVal → SerOut
  | 0, _, _ => .error .fuel
  | fuel+1, s0, x =>
    match derefS env s0 with
    | none => .error .schema
    | some s =>
    let ser := serS tbs env fuel
    let unionOr (e : SerOut) : SerOut := match s with | .union _ => .error .other | _ => e   -- `.other` on a union: not modelled
    match x with
    | .bool b => (match s with | .boolean => .ok ([if b then 1 else 0], 1) | _ => unionOr (.error .mismatch))
    | .i8 n | .i16 n | .i32 n | .u8 n | .u16 n =>
      if s.isIntLikeS then .ok (varint n) else unionOr (.error .mismatch)
    | .i64 n | .u32 n => if s.isLongLikeS then .ok (varint n) else unionOr (.error .mismatch)
    | .u64 _ => .error .other
    | .f32 b => (match s with | .float => .ok (leBytes 4 b.toNat, 4) | _ => unionOr (.error .mismatch))
    | .f64 b => (match s with | .double => .ok (leBytes 8 b.toNat, 8) | _ => unionOr (.error .mismatch))
    | .char u => (match s with | .string => .ok (withLen u) | _ => unionOr (.error .mismatch))
    | .str u => (match s with | .string | .uuidString => .ok (withLen u) | _ => unionOr (.error .mismatch))
    | .bytes b =>
      (match s with
       | .bytes | .bigDecimal | .decimal _ _ .bytes | .uuidBytes => .ok (withLen b)
       | .fixed _ size | .decimal _ _ (.fixed _ size) | .uuidFixed _ size | .duration _ size =>
         if size != b.length then .error .mismatch else .ok (b, b.length)
       | _ => unionOr (.error .mismatch))
    | .none =>
      (match s with
       | .union branches => (match optionNullIndex branches with | some ni => .ok (varint ni) | none => .error .mismatch)
       | _ => .error .mismatch)
    | .some v =>
      (match s with
       | .union branches =>
         (match optionNullIndex branches with
          | some ni =>
            let si := (ni + 1) % 2
            (match branches[si]? with
             | some b => (match ser b v with
               | .ok (vb, vn) => let (h, hn) := varint si; .ok (h ++ vb, hn + vn)
               | .error e => .error e)
             | none => .error .mismatch)
          | none => .error .mismatch)
       | _ => .error .mismatch)
    | .unit => (match s with | .null => .ok ([], 0) | _ => unionOr (.error .mismatch))
    | .unitStruct name =>
      (match s with
       | .record rn [] => if unqual rn == name then .ok ([], 0) else .error .mismatch
       | _ => unionOr (.error .mismatch))
    | .unitVariant _ idx variant =>
      (match s with
       | .enum _ syms _ =>
         if syms[idx]? == some variant then .ok (varint idx)
         else (match indexOfSym syms variant with | some i => .ok (varint i) | none => .error .mismatch)
       | _ => unionOr (.error .mismatch))
    | .newtypeStruct name v =>
      (match s with
       | .record rn [(_, fs)] => if unqual rn == name then ser fs v else .error .mismatch
       | _ => unionOr (.error .mismatch))
    | .seq len items =>
      (match s with
       | .array inner => blockSer tbs (ser inner) false (fun _ => .ok ([], 0)) len (items.map (fun i => (SerdeVal.unit, i)))
       | _ => unionOr (.error .mismatch))
    | .tuple items =>
      (match s with
       | .union _ => .error .other
       | _ =>
         if items.length == 0 then (match s with | .null => .ok ([], 0) | _ => .error .mismatch)
         else if items.length == 1 then (match items with | [i] => ser s i | _ => .error .mismatch)
         else match s with
           | .record _ fields => if fields.length == items.length then tupleFields ser fields items [] 0 else .error .mismatch
           | _ => .error .mismatch)
    | .tupleStruct name items =>
      (match s with
       | .record rn fields =>
         if fields.length == items.length && unqual rn == name then tupleFields ser fields items [] 0 else .error .mismatch
       | _ => unionOr (.error .mismatch))
    | .map len entries =>
      (match s with
       | .map inner => blockSer tbs (ser inner) true (ser .string) len entries
       | _ => unionOr (.error .other))          -- a record target (flattened struct): not in this fragment
    | .struct _ fields =>
      (match s with
       | .record _ rfields =>
         (match recordFields env ser rfields fields {} with
          | .error e => .error e
          | .ok st => match recordEnd env ser rfields (rfields.length + 1) st with
            | .error e => .error e
            | .ok st' => .ok (st'.out, st'.cnt))
       | _ => unionOr (.error .mismatch))

end Avro
