import AvroModel.Varint
/-
Model of the process-wide, set-once settings (`util::max_allocation_bytes`,
`set_serde_human_readable`, the four validators, the schemata comparator): a `std::sync::OnceLock`.

Each operation on the cell is **atomic** — that is exactly the guarantee of `OnceLock`
(`get_or_init` runs at most one initialiser and every caller sees its value; `set` succeeds for
exactly one caller) and part of the trusted base.  A schedule of N racing threads is therefore any
interleaving of their operations, i.e. any `List` of operations.
-/
namespace Avro

structure OnceCell (α : Type) where
  v : Option α
  deriving Repr

inductive OnceOp (α : Type)
  /-- `CELL.get_or_init(|| x)`: `max_allocation_bytes(x)`, `set_serde_human_readable(x)`, and every
  first *use* of a setting (with `x` the documented default) -/
  | getOrInit (x : α)
  /-- `CELL.set(x)`: the validator / comparator setters -/
  | set (x : α)
  deriving Repr

inductive OnceOut (α : Type)
  | value (x : α)      -- the value in force, reported to the caller
  | setOk
  | setErr (x : α)     -- `Err(own argument)`
  deriving Repr, BEq, DecidableEq

def OnceCell.step {α : Type} (c : OnceCell α) : OnceOp α → OnceCell α × OnceOut α
  | .getOrInit x =>
    match c.v with
    | some w => (c, .value w)
    | none => ({ v := some x }, .value x)
  | .set x =>
    match c.v with
    | some _ => (c, .setErr x)
    | none => ({ v := some x }, .setOk)

def OnceOp.arg {α : Type} : OnceOp α → α
  | .getOrInit x => x
  | .set x => x

/-- run a schedule, collecting what each operation reported -/
def OnceCell.run {α : Type} : OnceCell α → List (OnceOp α) → OnceCell α × List (OnceOut α)
  | c, [] => (c, [])
  | c, op :: ops =>
    let (c1, o) := c.step op
    let (c2, os) := OnceCell.run c1 ops
    (c2, o :: os)

end Avro
