import AvroModel.Encode
import AvroModel.Decode
/-
`Conforms cfg env s v`: `v` is a value of schema `s` in the *canonical (strict)* representation
— the one the decoder produces — and every length in it is within the allocation limit `cfg.lim`
(so that reading it back is not refused by `safe_len` / `safe_collection_len`).

This is the explicit, inductively defined well-formedness hypothesis of C01/C02/C06.
-/
namespace Avro

def i32ok (n : Int) : Prop := -2^31 ≤ n ∧ n < 2^31
def i64ok (n : Int) : Prop := -2^63 ≤ n ∧ n < 2^63

def notRef : Schema → Prop
  | .ref _ => False
  | _ => True

mutual
inductive Conforms (cfg : Cfg) (env : Names) : Schema → Value → Prop
  | null : Conforms cfg env .null .null
  | boolean (b : Bool) : Conforms cfg env .boolean (.boolean b)
  | int {n : Int} : i32ok n → Conforms cfg env .int (.int n)
  | date {n : Int} : i32ok n → Conforms cfg env .date (.date n)
  | timeMillis {n : Int} : i32ok n → Conforms cfg env .timeMillis (.timeMillis n)
  | long {n : Int} : i64ok n → Conforms cfg env .long (.long n)
  | longL {k : LongKind} {n : Int} : i64ok n → Conforms cfg env (.longL k) (.longL k n)
  | float (bits : UInt32) : Conforms cfg env .float (.float bits)
  | double (bits : UInt64) : Conforms cfg env .double (.double bits)
  | bytes {b : Bytes} : b.length ≤ cfg.lim → Conforms cfg env .bytes (.bytes b)
  | string {u : Bytes} : u.length ≤ cfg.lim → validUtf8 u = true → Conforms cfg env .string (.string u)
  | fixed {name : Bytes} {b : Bytes} : b.length ≤ cfg.lim →
      Conforms cfg env (.fixed name b.length) (.fixed b.length b)
  | enum {name : Bytes} {syms : List Bytes} {d : Option Bytes} {i : Nat} {sym : Bytes} :
      syms[i]? = some sym → i < 2^31 → Conforms cfg env (.enum name syms d) (.enum i sym)
  | union {bs : List Schema} {i : Nat} {b : Schema} {v : Value} :
      bs[i]? = some b → i < 2^32 → Conforms cfg env b v → Conforms cfg env (.union bs) (.union i v)
  | array {inner : Schema} {items : List Value} :
      ConformsAll cfg env inner items → items.length ≤ cfg.lim →
      items.length * cfg.szValue ≤ cfg.lim → Conforms cfg env (.array inner) (.array items)
  | map {inner : Schema} {es : List (Bytes × Value)} :
      ConformsEntries cfg env inner es → (es.map Prod.fst).Nodup → es.length ≤ cfg.lim →
      es.length * cfg.szEntry ≤ cfg.lim → Conforms cfg env (.map inner) (.map es)
  | record {name : Bytes} {fields : List (FieldMeta × Schema)} {vfs : List (Bytes × Value)} :
      ConformsFields cfg env fields vfs → (vfs.map Prod.fst).Nodup →
      Conforms cfg env (.record name fields) (.record vfs)
  | decimalFixed {p sc : Nat} {name : Bytes} {i : Int} {b : Bytes} :
      signExtend i b.length = .ok b → fromSignedBE b = i → b.length ≤ cfg.lim →
      Conforms cfg env (.decimal p sc (.fixed name b.length)) (.decimal i b.length)
  | decimalBytes {p sc : Nat} {i : Int} {b : Bytes} :
      signExtend i b.length = .ok b → fromSignedBE b = i → b.length ≤ cfg.lim →
      Conforms cfg env (.decimal p sc .bytes) (.decimal i b.length)
  | bigDecimal {u sc : Int} :
      fromSignedBE (toSignedBE u) = u → i64ok sc →
      (encBytes (toSignedBE u) ++ encLong sc).length ≤ cfg.lim →
      Conforms cfg env .bigDecimal (.bigDecimal u sc)
  | uuidString {b : Bytes} :
      validUtf8 (uuidToText b) = true → uuidParse (uuidToText b) = some b →
      (uuidToText b).length ≤ cfg.lim → Conforms cfg env .uuidString (.uuid b)
  | uuidBytes {b : Bytes} : b.length = 16 → 16 ≤ cfg.lim → Conforms cfg env .uuidBytes (.uuid b)
  | uuidFixed {name : Bytes} {b : Bytes} : b.length = 16 → 16 ≤ cfg.lim →
      Conforms cfg env (.uuidFixed name 16) (.uuid b)
  | duration {name : Bytes} {mo d ms : Nat} : mo < 2^32 → d < 2^32 → ms < 2^32 →
      Conforms cfg env (.duration name 12) (.duration mo d ms)
  | ref {n : Bytes} {s : Schema} {v : Value} :
      env.find? n = some s → notRef s → Conforms cfg env s v → Conforms cfg env (.ref n) v

inductive ConformsAll (cfg : Cfg) (env : Names) : Schema → List Value → Prop
  | nil {s : Schema} : ConformsAll cfg env s []
  | cons {s : Schema} {v : Value} {vs : List Value} :
      Conforms cfg env s v → ConformsAll cfg env s vs → ConformsAll cfg env s (v :: vs)

inductive ConformsEntries (cfg : Cfg) (env : Names) : Schema → List (Bytes × Value) → Prop
  | nil {s : Schema} : ConformsEntries cfg env s []
  | cons {s : Schema} {k : Bytes} {v : Value} {es : List (Bytes × Value)} :
      k.length ≤ cfg.lim → validUtf8 k = true →
      Conforms cfg env s v → ConformsEntries cfg env s es → ConformsEntries cfg env s ((k, v) :: es)

inductive ConformsFields (cfg : Cfg) (env : Names) :
    List (FieldMeta × Schema) → List (Bytes × Value) → Prop
  | nil : ConformsFields cfg env [] []
  | cons {m : FieldMeta} {s : Schema} {v : Value} {fs : List (FieldMeta × Schema)}
      {vs : List (Bytes × Value)} :
      Conforms cfg env s v → ConformsFields cfg env fs vs →
      ConformsFields cfg env ((m, s) :: fs) ((m.name, v) :: vs)
end

end Avro

namespace Avro

/-! ### schema well-formedness the decoder-side theorems need (what the parser guarantees) -/

mutual
/-- unions have fewer than 2^32 branches (so `index as u32` is exact) and record field names
are unique. -/
def wfS : Schema → Bool
  | .array s => wfS s
  | .map s => wfS s
  | .union bs => decide (bs.length < 2^32) && wfList bs
  | .record _ fs => decide ((fs.map (fun f => f.1.name)).Nodup) && wfFields fs
  | _ => true
def wfList : List Schema → Bool
  | [] => true
  | s :: ss => wfS s && wfList ss
def wfFields : List (FieldMeta × Schema) → Bool
  | [] => true
  | (_, s) :: fs => wfS s && wfFields fs
end

/-- what `ResolvedSchema` guarantees about the names table: entries are definitions (never a
`Ref`) and are well formed. -/
def EnvOk (env : Names) : Prop := ∀ n s, env.find? n = some s → notRef s ∧ wfS s = true

/-- facts about the *modelled third-party primitives* (num-bigint signed bytes, uuid text).  They are
statements about Lean functions; the ones proved so far are in `AvroProofs/Lemmas/Prim.lean`, the
others are carried as explicit hypotheses of the theorems that need them. -/
structure PrimFacts : Prop where
  signExtend_fromSignedBE : ∀ b : Bytes, signExtend (fromSignedBE b) b.length = .ok b
  fromSignedBE_toSignedBE : ∀ u : Int, fromSignedBE (toSignedBE u) = u
  toSignedBE_fromSignedBE_len : ∀ b : Bytes, (toSignedBE (fromSignedBE b)).length ≤ max 1 b.length
  uuid_text : ∀ b : Bytes, b.length = 16 →
    validUtf8 (uuidToText b) = true ∧ uuidParse (uuidToText b) = some b ∧ (uuidToText b).length = 36
  uuidParse_len : ∀ s b : Bytes, uuidParse s = some b → b.length = 16

end Avro
