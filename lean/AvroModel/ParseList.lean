import AvroModel.SchemaParse
/-
`Schema::parse_list` / `Schema::parse_str_with_list` (`schema/mod.rs`) and the driver loop
`Parser::parse_input_schemas` / `Parser::parse_list` (`schema/parser.rs`).

The pending inputs live in a `HashMap` that is drained with `keys().next()`: which input comes next
is decided by the hash order.  In the model the pending inputs are an association LIST and the next
one is its head, so the list order stands for the hash order (removals from the middle - inputs
parsed on demand by `fetch_schema_ref` - keep the order of the others, as they do in the map).
-/
namespace Avro

/-- the name under which each input text is filed (`Name::parse(inner, None)`): `none` when an input
is no JSON object, has no valid name, or two inputs have the same full name -/
def inputNames : List Json → List PName → Option (List (PName × Json))
  | [], _ => some []
  | j :: rest, seen =>
    match j with
    | .obj kvs =>
      (match parseName kvs none with
       | none => none
       | some n =>
         if seen.contains n then none            -- NameCollision
         else (inputNames rest (n :: seen)).map ((n, j) :: ·))
    | _ => none

/-- `Parser::parse_input_schemas`: parse the head of the pending list until it is empty (every round
removes at least the head, so `inputs.length` rounds suffice) -/
def parseInputs (dflt : DfltFn) (fuel : Nat) : Nat → PSt → Option PSt
  | 0, st => if st.inputs.isEmpty then some st else none
  | rounds+1, st =>
    match st.inputs with
    | [] => some st
    | (name, value) :: rest =>
      match parseJ dflt fuel { st with inputs := rest } value none with
      | none => none
      | some (parsed, st') =>
        match schemaTypeName name value with
        | none => none
        | some key => parseInputs dflt fuel rounds { st' with parsed := tblInsert st'.parsed key parsed }

/-- `Parser::parse_list`: hand the parsed schemas out in input order (an input that is not filed
under its own name - its `type` is a nested named type - is an error) -/
def collectInOrder : List PName → List (PName × PSchema) → Option (List PSchema)
  | [], _ => some []
  | n :: rest, parsed =>
    match tblGet parsed n with
    | none => none
    | some s => (collectInOrder rest (tblRemove parsed n)).map (s :: ·)

/-- `Schema::parse_list`: `texts` in input order, `pending` = the same inputs in hash order -/
def parseListWith (dflt : DfltFn) (fuel : Nat) (texts : List Json) (hashOrder : List (PName × Json) → List (PName × Json)) :
    Option (List PSchema) :=
  match inputNames texts [] with
  | none => none
  | some named =>
    match parseInputs dflt fuel (named.length + 1) { inputs := hashOrder named } with
    | none => none
    | some st => collectInOrder (named.map Prod.fst) st.parsed

/-- `Schema::parse_str_with_list` -/
def parseStrWithList (dflt : DfltFn) (fuel : Nat) (schema : Json) (texts : List Json)
    (hashOrder : List (PName × Json) → List (PName × Json)) : Option (PSchema × List PSchema) :=
  match inputNames texts [] with
  | none => none
  | some named =>
    match parseInputs dflt fuel (named.length + 1) { inputs := hashOrder named } with
    | none => none
    | some st =>
      match parseJ dflt fuel st schema none with
      | none => none
      | some (s, st') => (collectInOrder (named.map Prod.fst) st'.parsed).map (fun l => (s, l))

/-- all permutations of a list (the possible hash orders) -/
def perms {α : Type} : List α → List (List α)
  | [] => [[]]
  | x :: xs => (perms xs).flatMap (fun p => (List.range (p.length + 1)).map (fun i => p.take i ++ [x] ++ p.drop i))

end Avro
