import AvroModel.Basic
import AvroModel.Generated.Constants
/-
Model of `avro/src/rabin.rs` (CRC-64-AVRO).  `i64` values are `BitVec 64`; `as u64 >> k` is the
logical shift.  The Rust source has no literal table: `EMPTY` comes from the translator
(`Generated.rabinEmpty`, re-extracted on every run) and the table is the 8-step recurrence.
-/
namespace Avro

def rabinEmpty : BitVec 64 := BitVec.ofNat 64 Generated.rabinEmpty

/-- `fp = (fp as u64 >> 1) as i64 ^ (EMPTY & -(fp & 1))` -/
def fpStep (fp : BitVec 64) : BitVec 64 := (fp >>> 1) ^^^ (rabinEmpty &&& (-(fp &&& 1#64)))

def fpStepN : Nat → BitVec 64 → BitVec 64
  | 0, fp => fp
  | n+1, fp => fpStepN n (fpStep fp)

/-- `fp_table()[i]` -/
def fpTable (i : Nat) : BitVec 64 := fpStepN 8 (BitVec.ofNat 64 i)

/-- one byte of `Update::update` -/
def rabinUpdate (r : BitVec 64) (b : UInt8) : BitVec 64 :=
  (r >>> 8) ^^^ fpTable ((r ^^^ BitVec.ofNat 64 b.toNat) &&& 0xff#64).toNat

def rabinState (bs : Bytes) : BitVec 64 := bs.foldl rabinUpdate rabinEmpty

/-- `finalize`: the 8-byte little-endian form of the state -/
def rabinDigest (bs : Bytes) : Bytes := leBytes 8 (rabinState bs).toNat

/-! ### specification: CRC-64-AVRO as the bit-serial LFSR (polynomial division), no table -/

def crcByte (r : BitVec 64) (b : UInt8) : BitVec 64 := fpStepN 8 (r ^^^ BitVec.ofNat 64 b.toNat)

def crc64Avro (bs : Bytes) : BitVec 64 := bs.foldl crcByte rabinEmpty

end Avro
