/-
Basic definitions shared by the whole model.  Import-free (core Lean only) so that the
driver links as a `lean_exe`.

Conventions (DESIGN.md Appendix A/E):
* `Bytes := List UInt8`; every string of the Rust side (names, symbols, map keys, string
  values) is its UTF-8 byte list, so equality is decidable and kernel-reducible.
* `u64`/`usize` quantities are `Nat` with an explicit `% 2^64` where Rust wraps.
* readers are `Bytes → Except Err (α × Bytes)` (value and unread rest).
-/
namespace Avro

abbrev Bytes := List UInt8

/-- Canonicalised error kinds.  The correspondence check compares these (or just ok/err,
depending on the property's projection). -/
inductive Err
  | eof | overflow | i32Range | negLen | allocLimit | badBool | badUtf8 | badIndex
  | badUuid | fixedSize | schema | mismatch | validation | fuel | io | signExtend | other | panic
  deriving Repr, BEq, DecidableEq, Inhabited

def Err.toString : Err → String
  | .eof => "eof" | .overflow => "overflow" | .i32Range => "i32-range" | .negLen => "neg-len"
  | .allocLimit => "alloc-limit" | .badBool => "bad-bool" | .badUtf8 => "bad-utf8"
  | .badIndex => "bad-index" | .badUuid => "bad-uuid" | .fixedSize => "fixed-size"
  | .schema => "schema" | .mismatch => "mismatch" | .validation => "validation"
  | .fuel => "fuel" | .io => "io" | .signExtend => "sign-extend" | .other => "other"
  | .panic => "panic"

instance : ToString Err := ⟨Err.toString⟩

/-- `k` little-endian bytes of `n` (model of `to_le_bytes` for u32/u64/f32/f64 bit patterns). -/
def leBytes : Nat → Nat → Bytes
  | 0, _ => []
  | k+1, n => UInt8.ofNat (n % 256) :: leBytes k (n / 256)

/-- Inverse of `leBytes` (model of `from_le_bytes`). -/
def ofLeBytes : Bytes → Nat
  | [] => 0
  | b :: bs => b.toNat + 256 * ofLeBytes bs

/-- `read_exact` of `k` bytes: the bytes and the rest, or `eof` (nothing is consumed on error
as far as the model's callers can observe: every caller propagates the error). -/
def takeExact : Nat → Bytes → Except Err (Bytes × Bytes)
  | 0, bs => .ok ([], bs)
  | _+1, [] => .error .eof
  | k+1, b :: bs =>
    match takeExact k bs with
    | .ok (h, r) => .ok (b :: h, r)
    | .error e => .error e

end Avro
