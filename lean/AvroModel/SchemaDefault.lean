import AvroModel.SchemaParse
import AvroModel.Resolve
/-
The parser's check of a record field's default (`RecordField::resolve_default_value`): the default
is converted from JSON to a value and resolved against the field's schema (against any branch for
a union) with the schemas parsed so far as the names table.  `lower` maps the schema-text layer
onto the datum-layer `Schema` the resolution model works on.
-/
namespace Avro

mutual
def lower : PSchema → Schema
  | .null => .null | .boolean => .boolean | .int => .int | .long => .long | .float => .float | .double => .double
  | .bytes => .bytes | .string => .string
  | .array items _ => .array (lower items)
  | .map values _ => .map (lower values)
  | .union branches => .union (lowerList branches)
  | .record name _ _ fields _ => .record name.full (lowerFields fields)
  | .enum name _ _ symbols default _ => .enum name.full symbols default
  | .fixed f => .fixed f.name.full f.size
  | .decimal p sc none => .decimal p sc .bytes
  | .decimal p sc (some f) => .decimal p sc (.fixed f.name.full f.size)
  | .bigDecimal => .bigDecimal
  | .uuidString => .uuidString | .uuidBytes => .uuidBytes
  | .uuidFixed f => .uuidFixed f.name.full f.size
  | .date => .date | .timeMillis => .timeMillis
  | .timeMicros => .longL .timeMicros | .tsMillis => .longL .tsMillis | .tsMicros => .longL .tsMicros
  | .tsNanos => .longL .tsNanos | .ltsMillis => .longL .ltsMillis | .ltsMicros => .longL .ltsMicros
  | .ltsNanos => .longL .ltsNanos
  | .duration f => .duration f.name.full f.size
  | .ref name => .ref name.full
def lowerList : List PSchema → List Schema
  | [] => []
  | s :: rest => lower s :: lowerList rest
def lowerFields : List (FieldHdr × PSchema) → List (FieldMeta × Schema)
  | [] => []
  | (h, s) :: rest => ({ name := h.name, aliases := h.aliases, default := h.default }, lower s) :: lowerFields rest
end

/-- float conversions do not influence whether a default resolves -/
def dummyFloatOps : FloatOps := { i2f32 := fun _ => 0, i2f64 := fun _ => 0, f32to64 := fun _ => 0, f64to32 := fun _ => 0 }

/-- `RecordField::resolve_default_value` -/
def defaultOk (fuel : Nat) (lim : Nat) (parsed : List (PName × PSchema)) (schema : PSchema) (j : Json) : Bool :=
  let env : Names := parsed.map (fun kv => (kv.1.full, lower kv.2))
  match jsonToValue j with
  | .error _ => false
  | .ok v =>
    match schema with
    | .union branches => branches.any (fun b => (resolve dummyFloatOps { lim := lim } env fuel (lower b) v).toBool)
    | s => (resolve dummyFloatOps { lim := lim } env fuel (lower s) v).toBool

end Avro
