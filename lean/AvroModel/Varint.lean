import AvroModel.Basic
/-
Model of `avro/src/util.rs`: `zig_i64`, `zag_i64`, `zig_i32`, `zag_i32`, `encode_variable`,
`decode_variable`, `read_usize`, and of `decode.rs`: `decode_len`, `decode_seq_len`.

`i64` payloads are `Int`; the zig-zag bit twiddling is done on `BitVec 64` exactly as the
Rust source writes it.  The varint loops are structural on a fuel of 10 (the Rust loop reads
at most 10 bytes: `j > 9` is an overflow error).
-/
namespace Avro

/-- `((n << 1) ^ (n >> 63)) as u64` with `n : i64` (arithmetic shift right). -/
def zigBV (n : BitVec 64) : BitVec 64 := (n <<< 1) ^^^ (n.sshiftRight 63)

/-- `if z & 1 == 0 { (z >> 1) as i64 } else { !(z >> 1) as i64 }` with `z : u64`. -/
def zagBV (z : BitVec 64) : BitVec 64 :=
  if z &&& 1#64 = 0#64 then z >>> 1 else ~~~(z >>> 1)

/-- the zig-zagged `u64` of an `i64` given as an `Int` (wrapped into 64 bits like `as i64`). -/
def zig (n : Int) : Nat := (zigBV (BitVec.ofInt 64 n)).toNat

/-- the `i64` (as an `Int`) of a zig-zagged `u64`. -/
def zag (z : Nat) : Int := (zagBV (BitVec.ofNat 64 z)).toInt

/-- `encode_variable`: base-128 little-endian digits with continuation bits.  At most 10
iterations for `z < 2^64`. -/
def encodeVarAux : Nat → Nat → Bytes
  | 0, _ => []
  | fuel+1, z =>
    if z ≤ 0x7F then [UInt8.ofNat (z &&& 0x7F)]
    else UInt8.ofNat (0x80 ||| (z &&& 0x7F)) :: encodeVarAux fuel (z >>> 7)

def encodeVar (z : Nat) : Bytes := encodeVarAux 10 z

/-- `decode_variable`: `fuel` = bytes that may still be read (10 − j); `acc` is the `u64`
accumulator; the 10th byte's high bits are silently dropped by `<<` exactly as in Rust. -/
def decodeVarAux : Nat → Nat → Nat → Bytes → Except Err (Nat × Bytes)
  | 0, _, _, _ => .error .overflow
  | _+1, _, _, [] => .error .eof
  | fuel+1, j, acc, b :: rest =>
    let acc' := (acc ||| ((b.toNat &&& 0x7F) <<< (j * 7))) % 2^64
    if b.toNat >>> 7 = 0 then .ok (acc', rest) else decodeVarAux fuel (j+1) acc' rest

def decodeVar (bs : Bytes) : Except Err (Nat × Bytes) := decodeVarAux 10 0 0 bs

/-- `encode_long` / `zig_i64`. -/
def encLong (n : Int) : Bytes := encodeVar (zig n)

/-- `encode_int` / `zig_i32`: `n as i64` then `zig_i64`. -/
def encInt (n : Int) : Bytes := encLong n

/-- `zag_i64`. -/
def decLong (bs : Bytes) : Except Err (Int × Bytes) :=
  match decodeVar bs with
  | .ok (z, r) => .ok (zag z, r)
  | .error e => .error e

/-- `zag_i32`: `i32::try_from`. -/
def decInt (bs : Bytes) : Except Err (Int × Bytes) :=
  match decLong bs with
  | .ok (n, r) => if -2147483648 ≤ n ∧ n < 2147483648 then .ok (n, r) else .error .i32Range
  | .error e => .error e

/-- `safe_len`. -/
def safeLen (lim n : Nat) : Except Err Nat :=
  if n ≤ lim then .ok n else .error .allocLimit

/-- `safe_collection_len::<T>` with `sz = size_of::<T>()`: `checked_mul` then compare. -/
def safeCollectionLen (lim sz total : Nat) : Except Err Unit :=
  if total * sz ≥ 2^64 then .error .overflow
  else if total * sz ≤ lim then .ok () else .error .allocLimit

/-- `decode_len`: a non-negative long that passes `safe_len`. -/
def decLen (lim : Nat) (bs : Bytes) : Except Err (Nat × Bytes) :=
  match decLong bs with
  | .ok (n, r) =>
    if n < 0 then .error .negLen
    else match safeLen lim n.toNat with
      | .ok k => .ok (k, r)
      | .error e => .error e
  | .error e => .error e

/-- `read_usize`. -/
def readUsize (bs : Bytes) : Except Err (Nat × Bytes) :=
  match decLong bs with
  | .ok (n, r) => if n < 0 then .error .negLen else .ok (n.toNat, r)
  | .error e => .error e

/-- `decode_seq_len`: `0` ends the sequence; a negative count is followed by a byte size
that is read and ignored; `i64::MIN` cannot be negated (`checked_neg`). -/
def decSeqLen (lim : Nat) (bs : Bytes) : Except Err (Nat × Bytes) :=
  match decLong bs with
  | .error e => .error e
  | .ok (raw, r) =>
    if raw = 0 then .ok (0, r)
    else if raw < 0 then
      match decLong r with
      | .error e => .error e
      | .ok (_, r') =>
        if raw = -9223372036854775808 then .error .overflow
        else match safeLen lim (-raw).toNat with
          | .ok k => .ok (k, r')
          | .error e => .error e
    else match safeLen lim raw.toNat with
      | .ok k => .ok (k, r)
      | .error e => .error e

end Avro
