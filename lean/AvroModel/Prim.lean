import AvroModel.Basic
/-
Models of third-party primitives the datum layer calls (each has its own correspondence row):
* `String::from_utf8`  → `validUtf8`
* num-bigint `BigInt::to_signed_bytes_be / from_signed_bytes_be` → `toSignedBE / fromSignedBE`
* `Decimal::to_sign_extended_bytes_with_len` → `signExtend` (this one is the crate's own code)
* uuid `Uuid::to_string` (hyphenated lower-case) / `Uuid::parse_str` (4 text forms) → `uuidToText / uuidParse`
* `Duration` ↔ `[u8; 12]` → `durationBytes / durationOfBytes`
-/
namespace Avro

/-! ### UTF-8 validity (`String::from_utf8`, Unicode 15 Table 3-7) -/

@[inline] def isCont (b : UInt8) : Bool := 0x80 ≤ b && b ≤ 0xBF

def validUtf8 : Bytes → Bool
  | [] => true
  | [b0] => b0 < 0x80
  | [b0, b1] =>
    if b0 < 0x80 then validUtf8 [b1]
    else (0xC2 ≤ b0 && b0 ≤ 0xDF) && isCont b1
  | [b0, b1, b2] =>
    if b0 < 0x80 then validUtf8 [b1, b2]
    else if 0xC2 ≤ b0 && b0 ≤ 0xDF then isCont b1 && validUtf8 [b2]
    else if b0 = 0xE0 then (0xA0 ≤ b1 && b1 ≤ 0xBF) && isCont b2
    else if (0xE1 ≤ b0 && b0 ≤ 0xEC) || b0 = 0xEE || b0 = 0xEF then isCont b1 && isCont b2
    else if b0 = 0xED then (0x80 ≤ b1 && b1 ≤ 0x9F) && isCont b2
    else false
  | b0 :: b1 :: b2 :: b3 :: rest =>
    if b0 < 0x80 then validUtf8 (b1 :: b2 :: b3 :: rest)
    else if 0xC2 ≤ b0 && b0 ≤ 0xDF then isCont b1 && validUtf8 (b2 :: b3 :: rest)
    else if b0 = 0xE0 then (0xA0 ≤ b1 && b1 ≤ 0xBF) && isCont b2 && validUtf8 (b3 :: rest)
    else if (0xE1 ≤ b0 && b0 ≤ 0xEC) || b0 = 0xEE || b0 = 0xEF then
      isCont b1 && isCont b2 && validUtf8 (b3 :: rest)
    else if b0 = 0xED then (0x80 ≤ b1 && b1 ≤ 0x9F) && isCont b2 && validUtf8 (b3 :: rest)
    else if b0 = 0xF0 then (0x90 ≤ b1 && b1 ≤ 0xBF) && isCont b2 && isCont b3 && validUtf8 rest
    else if 0xF1 ≤ b0 && b0 ≤ 0xF3 then isCont b1 && isCont b2 && isCont b3 && validUtf8 rest
    else if b0 = 0xF4 then (0x80 ≤ b1 && b1 ≤ 0x8F) && isCont b2 && isCont b3 && validUtf8 rest
    else false

/-! ### two's-complement big-endian integers (num-bigint) -/

/-- `k` big-endian bytes of `n`. -/
def beBytes (k n : Nat) : Bytes := (leBytes k n).reverse

def ofBeBytes (bs : Bytes) : Nat := ofLeBytes bs.reverse

/-- number of bits of `n` (0 for 0). -/
def bitLen (n : Nat) : Nat := if n = 0 then 0 else Nat.log2 n + 1

/-- minimal width (≥ 1) of the two's-complement representation of `i`. -/
def minWidth (i : Int) : Nat :=
  bitLen (if 0 ≤ i then i.toNat else (-i - 1).toNat) / 8 + 1

/-- `BigInt::to_signed_bytes_be`. -/
def toSignedBE (i : Int) : Bytes :=
  let k := minWidth i
  beBytes k (i % (2 ^ (8 * k) : Nat)).toNat

/-- `BigInt::from_signed_bytes_be` (`[]` ↦ 0). -/
def fromSignedBE (bs : Bytes) : Int :=
  match bs with
  | [] => 0
  | b :: _ =>
    if b ≥ 0x80 then (ofBeBytes bs : Int) - (2 ^ (8 * bs.length) : Nat) else (ofBeBytes bs : Int)

/-- `Decimal::to_sign_extended_bytes_with_len`. -/
def signExtend (i : Int) (len : Nat) : Except Err Bytes :=
  -- zero needs no bytes (so that a zero-length decimal can be written back)
  let raw := if i = 0 then [] else toSignedBE i
  if len < raw.length then .error .signExtend
  else .ok (List.replicate (len - raw.length) (if i < 0 then (0xFF : UInt8) else 0) ++ raw)

/-! ### UUID text forms -/

def hexDigit (n : Nat) : UInt8 :=
  if n < 10 then UInt8.ofNat (48 + n) else UInt8.ofNat (87 + n)

def hexOfBytes : Bytes → Bytes
  | [] => []
  | b :: bs => hexDigit (b.toNat / 16) :: hexDigit (b.toNat % 16) :: hexOfBytes bs

/-- value of one hex digit, either case (`decode_hex32`). -/
def hexVal (c : UInt8) : Option Nat :=
  if 48 ≤ c && c ≤ 57 then some (c.toNat - 48)
  else if 97 ≤ c && c ≤ 102 then some (c.toNat - 87)
  else if 65 ≤ c && c ≤ 70 then some (c.toNat - 55)
  else none

def bytesOfHex : Bytes → Option Bytes
  | [] => some []
  | [_] => none
  | h :: l :: rest =>
    match hexVal h, hexVal l, bytesOfHex rest with
    | some a, some b, some r => some (UInt8.ofNat (a * 16 + b) :: r)
    | _, _, _ => none

/-- `Uuid::to_string` / `Display`: lower-case hyphenated 8-4-4-4-12. -/
def uuidToText (b : Bytes) : Bytes :=
  let h := hexOfBytes b
  h.take 8 ++ [45] ++ (h.drop 8).take 4 ++ [45] ++ (h.drop 12).take 4 ++ [45]
    ++ (h.drop 16).take 4 ++ [45] ++ h.drop 20

def parseHyphenated (s : Bytes) : Option Bytes :=
  if s.length ≠ 36 then none
  else if s[8]? ≠ some 45 || s[13]? ≠ some 45 || s[18]? ≠ some 45 || s[23]? ≠ some 45 then none
  else bytesOfHex (s.take 8 ++ (s.drop 9).take 4 ++ (s.drop 14).take 4 ++ (s.drop 19).take 4
        ++ (s.drop 24).take 12)

def urnPrefix : Bytes := [117, 114, 110, 58, 117, 117, 105, 100, 58]  -- "urn:uuid:"

/-- `Uuid::parse_str` (uuid 1.x `try_parse`): simple, hyphenated, braced, urn. -/
def uuidParse (s : Bytes) : Option Bytes :=
  if s.length = 32 then bytesOfHex s
  else if s.length = 36 then parseHyphenated s
  else if s.length = 38 then
    if s.head? = some 123 && s.getLast? = some 125 then parseHyphenated ((s.drop 1).take 36)
    else none
  else if s.length = 45 then
    if s.take 9 = urnPrefix then parseHyphenated (s.drop 9) else none
  else none

/-! ### duration -/

def durationBytes (months days millis : Nat) : Bytes :=
  leBytes 4 months ++ leBytes 4 days ++ leBytes 4 millis

end Avro
