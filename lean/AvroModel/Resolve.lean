import AvroModel.Decode
import AvroModel.Encode
/-
Model of `types.rs`: `Value::validate_internal`, `Value::resolve_internal` with all `resolve_*`
helpers, `impl TryFrom<JsonValue> for Value`, and of `schema/union.rs`:
`UnionSchema::find_schema_with_known_schemata`.

`resolve` ↔ `find_schema…` are mutually recursive in the Rust code (a union branch is chosen by
trying to resolve the value against it); here `resolve` recurses on `fuel` and hands the
lower-fuel recursive call to the branch finder as a predicate.

Floating-point conversions (`n as f32`, `f64::from(f32)`, `x as f32`) are a parameter (`FloatOps`):
no theorem depends on the rounding, and the driver instantiates them with the platform's IEEE
operations.
-/
namespace Avro

structure FloatOps where
  i2f32 : Int → UInt32        -- `n as f32` (bits)
  i2f64 : Int → UInt64        -- `n as f64` / `f64::from(n)`
  f32to64 : UInt32 → UInt64   -- `f64::from(x)`
  f64to32 : UInt64 → UInt32   -- `x as f32`

/-- `SchemaKind` after `schema_to_base_schemakind` / `SchemaKind::from(&Value)` -/
inductive Kind
  | null | boolean | int | long | float | double | bytes | string | array | map | union
  | record | enum | fixed | ref | bigDecimal
  | decimal | uuid | date | timeMillis | longL (k : LongKind) | duration
  deriving Repr, BEq, DecidableEq

/-- `schema_to_base_schemakind` -/
def Schema.baseKind : Schema → Kind
  | .null => .null | .boolean => .boolean | .int => .int | .long => .long | .float => .float
  | .double => .double | .bytes => .bytes | .string => .string
  | .date => .int | .timeMillis => .int | .longL _ => .long
  | .array _ => .array | .map _ => .map | .union _ => .union
  | .record _ _ => .record | .enum _ _ _ => .enum | .fixed _ _ => .fixed
  | .decimal _ _ .bytes => .bytes | .decimal _ _ (.fixed _ _) => .fixed
  | .bigDecimal => .bigDecimal
  | .uuidString => .string | .uuidBytes => .bytes | .uuidFixed _ _ => .fixed
  | .duration _ _ => .fixed | .ref _ => .ref

/-- `Schema::name().is_some()` -/
def Schema.isNamed : Schema → Bool
  | .record _ _ | .enum _ _ _ | .fixed _ _ | .decimal _ _ (.fixed _ _) | .uuidFixed _ _ | .duration _ _ | .ref _ => true
  | _ => false

/-- `value_to_base_schemakind`: (unnamed kind to look up directly, named kind to try) -/
def Value.kinds : Value → Option Kind × Option Kind
  | .decimal _ _ => (some .bytes, some .fixed)
  | .bigDecimal _ _ => (some .bytes, none)
  | .uuid _ => (some .string, some .fixed)
  | .date _ | .timeMillis _ => (some .int, none)
  | .longL _ _ => (some .long, none)
  | .duration _ _ _ => (none, some .fixed)
  | .record _ => (none, some .record)
  | .enum _ _ => (none, some .enum)
  | .fixed _ _ => (none, some .fixed)
  | .map _ => (some .map, some .record)
  | .null => (some .null, none) | .boolean _ => (some .boolean, none) | .int _ => (some .int, none)
  | .long _ => (some .long, none) | .float _ => (some .float, none) | .double _ => (some .double, none)
  | .bytes _ => (some .bytes, none) | .string _ => (some .string, none) | .array _ => (some .array, none)
  | .union _ _ => (some .union, none)

/-- first index `i ≥ start` of an unnamed branch with base kind `k` (`variant_index.get(kind)`) -/
def unnamedIndex (k : Kind) : List Schema → Nat → Option (Nat × Schema)
  | [], _ => none
  | s :: rest, i => if !s.isNamed && s.baseKind == k then some (i, s) else unnamedIndex k rest (i+1)

/-- first named branch (in index order) of kind `k` (or a `Ref`) the value resolves against -/
def namedFind (k : Kind) (ok : Schema → Bool) : List Schema → Nat → Option (Nat × Schema)
  | [], _ => none
  | s :: rest, i =>
    if s.isNamed && (s.baseKind == k || s.baseKind == .ref) && ok s then some (i, s)
    else namedFind k ok rest (i+1)

/-- slow path: first branch at all the value resolves against -/
def anyFind (ok : Schema → Bool) : List Schema → Nat → Option (Nat × Schema)
  | [], _ => none
  | s :: rest, i => if ok s then some (i, s) else anyFind ok rest (i+1)

/-- the unnamed candidate: the branch indexed under the value's unnamed kind; maps and arrays are
checked against the value, everything else is taken on its kind alone -/
def unnamedCand (ok : Schema → Bool) (branches : List Schema) : Option Kind → Option (Nat × Schema)
  | none => none
  | some k => match unnamedIndex k branches 0 with
    | none => none
    | some (i, s) =>
      if s.baseKind == Kind.map || s.baseKind == Kind.array then (if ok s then some (i, s) else none)
      else some (i, s)

def namedCand (ok : Schema → Bool) (branches : List Schema) : Option Kind → Option (Nat × Schema)
  | none => none
  | some k => namedFind k ok branches 0

/-- the lower index of the two candidates; without candidates the slow path -/
def pickBranch (ok : Schema → Bool) (branches : List Schema) :
    Option (Nat × Schema) → Option (Nat × Schema) → Option (Nat × Schema)
  | some (ui, us), some (ni, ns) => if ui < ni then some (ui, us) else some (ni, ns)
  | some u, none => some u
  | none, some n => some n
  | none, none => anyFind ok branches 0

/-- `UnionSchema::find_schema_with_known_schemata`; `ok s` = "the value resolves against `s`" -/
def findBranchWith (ok : Schema → Bool) (branches : List Schema) (v : Value) : Option (Nat × Schema) :=
  pickBranch ok branches (unnamedCand ok branches v.kinds.1) (namedCand ok branches v.kinds.2)

/-! ### JSON → Value (`impl TryFrom<JsonValue> for Value`) -/

mutual
def jsonToValue : Json → Except Err Value
  | .null => .ok .null
  | .bool b => .ok (.boolean b)
  | .int n =>
    if -2147483648 ≤ n ∧ n ≤ 2147483647 then .ok (.int n)
    else if -9223372036854775808 ≤ n ∧ n ≤ 9223372036854775807 then .ok (.long n)
    else .error .other        -- JsonNumberTooLarge
  | .float bits => .ok (.double bits)
  | .str s => .ok (.string s)
  | .arr xs => match jsonToValues xs with
    | .ok vs => .ok (.array vs)
    | .error e => .error e
  | .obj kvs => match jsonToEntries kvs with
    | .ok es => .ok (.map es)
    | .error e => .error e
def jsonToValues : List Json → Except Err (List Value)
  | [] => .ok []
  | x :: xs => match jsonToValue x, jsonToValues xs with
    | .ok v, .ok vs => .ok (v :: vs)
    | .error e, _ => .error e
    | _, .error e => .error e
def jsonToEntries : List (Bytes × Json) → Except Err (List (Bytes × Value))
  | [] => .ok []
  | (k, x) :: xs => match jsonToValue x, jsonToEntries xs with
    | .ok v, .ok vs => .ok ((k, v) :: vs)
    | .error e, _ => .error e
    | _, .error e => .error e
end

/-! ### small helpers of the `resolve_*` family -/

def digits10 : Nat → Nat → Nat
  | 0, _ => 0
  | fuel+1, n => if n < 10 then 1 else 1 + digits10 fuel (n / 10)

/-- `max_prec_for_len`: `floor(log10(2^(8·len−1) − 1))` computed in `f64` -/
def maxPrecForLen (len : Nat) : Nat :=
  if len = 0 then 0                                   -- log10 of a negative number: NaN as usize = 0
  else if 8 * len - 1 ≥ 1024 then 2^64 - 1            -- 2^1024 = inf: inf as usize saturates
  else digits10 400 (2^(8 * len - 1) - 1) - 1

/-- `parse_special_float` as f32 bits -/
def specialFloat (s : Bytes) : Option UInt32 :=
  if s = [78, 97, 78] then some 0x7FC00000                                     -- "NaN"
  else if s = [73, 78, 70] ∨ s = [73, 110, 102, 105, 110, 105, 116, 121] then some 0x7F800000   -- "INF" | "Infinity"
  else if s = [45, 73, 78, 70] ∨ s = [45, 73, 110, 102, 105, 110, 105, 116, 121] then some 0xFF800000
  else none

def i32ok' (n : Int) : Bool := decide (-2147483648 ≤ n ∧ n ≤ 2147483647)

/-- `String` chars as bytes when every code point is ≤ 0xFF (`resolve_decimal` from a string):
UTF-8 decoding restricted to code points below 0x100 -/
def latin1OfUtf8 : Bytes → Option Bytes
  | [] => some []
  | [b] => if b < 0x80 then some [b] else none
  | b0 :: b1 :: rest =>
    if b0 < 0x80 then (latin1OfUtf8 (b1 :: rest)).map (b0 :: ·)
    else if (b0 = 0xC2 ∨ b0 = 0xC3) ∧ 0x80 ≤ b1 ∧ b1 ≤ 0xBF then
      (latin1OfUtf8 rest).map (UInt8.ofNat ((b0.toNat - 0xC0) * 64 + (b1.toNat - 0x80)) :: ·)
    else none

def mapGet (es : List (Bytes × Value)) (k : Bytes) : Option Value :=
  match es with
  | [] => none
  | (k', v) :: rest => if k' = k then some v else mapGet rest k

def mapRemove (es : List (Bytes × Value)) (k : Bytes) : List (Bytes × Value) :=
  es.filter (fun kv => kv.1 ≠ k)

/-- `fields.into_iter().collect::<HashMap<_,_>>()`: later duplicates overwrite -/
def collectMap (fs : List (Bytes × Value)) : List (Bytes × Value) :=
  fs.foldl (fun m kv => mapInsert m kv.1 kv.2) []

def isNullable : Schema → Bool
  | .union bs => bs.any (fun b => match b with | .null => true | _ => false)
  | _ => false

def resolveAll (f : Value → Except Err Value) : List Value → Except Err (List Value)
  | [] => .ok []
  | v :: vs => match f v with
    | .error e => .error e
    | .ok w => match resolveAll f vs with
      | .ok ws => .ok (w :: ws)
      | .error e => .error e

def resolveEntries (f : Value → Except Err Value) : List (Bytes × Value) → Except Err (List (Bytes × Value))
  | [] => .ok []
  | (k, v) :: vs => match f v with
    | .error e => .error e
    | .ok w => match resolveEntries f vs with
      | .ok ws => .ok ((k, w) :: ws)
      | .error e => .error e

/-- `resolve_enum` -/
def resolveEnum (syms : List Bytes) (dflt : Option Bytes) : Value → Except Err Value
  | .enum _ s | .string s =>
    match indexOfSym syms s with
    | some i => .ok (.enum i s)
    | none => match dflt with
      | some d => match indexOfSym syms d with
        | some i => .ok (.enum i d)
        | none => .error .mismatch
      | none => .error .mismatch
  | _ => .error .mismatch

/-- the record arm, field by field (`resolve_record`): `items` is the value as a map from which
matched entries are removed; `f` resolves a value against a schema; `fu` resolves against a union
(used for a union-typed field's default) -/
def resolveFieldsWith (f : Schema → Value → Except Err Value) :
    List (FieldMeta × Schema) → List (Bytes × Value) → Except Err (List (Bytes × Value))
  | [], _ => .ok []
  | (m, s) :: rest, items =>
    -- matched by name, then by the aliases of the reader's field
    let byName := mapGet items m.name
    let (written, items') := match byName with
      | some v => (some v, mapRemove items m.name)
      | none => match m.aliases.find? (fun a => (mapGet items a).isSome) with
        | some a => (mapGet items a, mapRemove items a)
        | none => (none, items)
    let value : Except Err Value := match written with
      | some v => .ok v
      | none => match m.default with
        | none => .error .mismatch          -- GetField
        | some j => match s with
          | .enum _ syms d => (match jsonToValue j with
            | .ok jv => resolveEnum syms d jv
            | .error e => .error e)
          | .union bs =>
            (match j, bs.head? with
             | .null, some .null => .ok (.union 0 .null)
             | _, _ => jsonToValue j)
          | _ => jsonToValue j
    match value with
    | .error e => .error e
    | .ok v => match f s v with
      | .error e => .error e
      | .ok w => match resolveFieldsWith f rest items' with
        | .ok ws => .ok ((m.name, w) :: ws)
        | .error e => .error e

/-- a union value against a non-union reader: the inner value; anything else: the value itself -/
def unwrapFor (s : Schema) (v0 : Value) : Value :=
  match v0 with
  | .union _ inner => (match s with | .union _ => v0 | _ => inner)
  | _ => v0

/-- the value inside a union value; any other value itself -/
def unionPayload : Value → Value
  | .union _ w => w
  | w => w

/-- `Value::resolve_internal` -/
def resolve (fo : FloatOps) (cfg : Cfg) (env : Names) : Nat → Schema → Value → Except Err Value
  | 0, _, _ => .error .fuel
  | fuel+1, s, v0 =>
    -- a union value against a non-union reader: pull the inner value out
    let v := unwrapFor s v0
    match s with
    | .ref n => match env.find? n with
      | some s' => resolve fo cfg env fuel s' v
      | none => .error .schema
    | .null => match v with | .null => .ok .null | _ => .error .mismatch
    | .boolean => match v with | .boolean b => .ok (.boolean b) | _ => .error .mismatch
    | .int => match v with
      | .int n | .date n | .timeMillis n => .ok (.int n)
      | .long n => if i32ok' n then .ok (.int n) else .error .i32Range
      | _ => .error .mismatch
    | .long => match v with
      | .int n | .date n | .timeMillis n | .long n | .longL _ n => .ok (.long n)
      | _ => .error .mismatch
    | .float => match v with
      | .int n | .long n => .ok (.float (fo.i2f32 n))
      | .float x => .ok (.float x)
      | .double x => .ok (.float (fo.f64to32 x))
      | .string u => (match specialFloat u with | some f => .ok (.float f) | none => .error .mismatch)
      | _ => .error .mismatch
    | .double => match v with
      | .int n | .long n => .ok (.double (fo.i2f64 n))
      | .float x => .ok (.double (fo.f32to64 x))
      | .double x => .ok (.double x)
      | .string u => (match specialFloat u with | some f => .ok (.double (fo.f32to64 f)) | none => .error .mismatch)
      | _ => .error .mismatch
    | .bytes => match v with
      | .bytes b => .ok (.bytes b)
      | .string u => .ok (.bytes u)
      | .array items =>
        -- `try_u8`: each item resolved as int and in 0..=255
        (match resolveAll (fun it => match resolve fo cfg env fuel .int it with
            | .ok (.int n) => if 0 ≤ n ∧ n ≤ 255 then .ok (.int n) else .error .mismatch
            | .ok _ => .error .mismatch
            | .error e => .error e) items with
         | .ok ws => .ok (.bytes (ws.map (fun w => match w with | .int n => UInt8.ofNat n.toNat | _ => 0)))
         | .error e => .error e)
      | _ => .error .mismatch
    | .string => match v with
      | .string u => .ok (.string u)
      | .bytes b | .fixed _ b => if validUtf8 b then .ok (.string b) else .error .badUtf8
      | _ => .error .mismatch
    | .fixed _ size => match v with
      | .fixed n b => if n = size then .ok (.fixed n b) else .error .fixedSize
      | .string u => .ok (.fixed u.length u)
      | .bytes b => if b.length = size then .ok (.fixed size b) else .error .fixedSize
      | _ => .error .mismatch
    | .union bs =>
      let inner := unionPayload v
      (match findBranchWith (fun b => (resolve fo cfg env fuel b inner).toBool) bs inner with
       | none => .error .mismatch
       | some (i, b) => match resolve fo cfg env fuel b inner with
         | .ok w => .ok (.union i w)
         | .error e => .error e)
    | .enum _ syms d => resolveEnum syms d v
    | .array inner => match v with
      | .array items => (match resolveAll (resolve fo cfg env fuel inner) items with
        | .ok ws => .ok (.array ws) | .error e => .error e)
      | _ => .error .mismatch
    | .map inner => match v with
      | .map es => (match resolveEntries (resolve fo cfg env fuel inner) es with
        | .ok ws => .ok (.map ws) | .error e => .error e)
      | _ => .error .mismatch
    | .record _ fields =>
      (match v with
       | .map es => (match resolveFieldsWith (resolve fo cfg env fuel) fields es with
         | .ok fs => .ok (.record fs) | .error e => .error e)
       | .record fs => (match resolveFieldsWith (resolve fo cfg env fuel) fields (collectMap fs) with
         | .ok fs' => .ok (.record fs') | .error e => .error e)
       | _ => .error .mismatch)
    | .decimal precision scale inner =>
      if scale > precision then .error .mismatch
      else if (match inner with | .fixed _ size => decide (maxPrecForLen size < precision) | .bytes => false) then .error .mismatch
      else match v with
        | .decimal i len => .ok (.decimal i len)
        | .fixed _ b | .bytes b => .ok (.decimal (fromSignedBE b) b.length)
        | .string u => (match latin1OfUtf8 u with
          | some b => .ok (.decimal (fromSignedBE b) b.length)
          | none => .error .mismatch)
        | _ => .error .mismatch
    | .bigDecimal => match v with
      | .bigDecimal u sc => .ok (.bigDecimal u sc)
      | .bytes b => (match deserBigDecimal cfg.lim b with
        | .ok (u, sc) => .ok (.bigDecimal u sc) | .error e => .error e)
      | _ => .error .mismatch
    | .date => match v with | .date n | .int n => .ok (.date n) | _ => .error .mismatch
    | .timeMillis => match v with | .timeMillis n | .int n => .ok (.timeMillis n) | _ => .error .mismatch
    | .longL k => match v with
      | .longL k' n => if k' = k then .ok (.longL k n) else .error .mismatch
      | .long n | .int n => .ok (.longL k n)
      | _ => .error .mismatch
    | .duration _ _ => match v with
      | .duration a b c => .ok (.duration a b c)
      | .fixed size b =>
        if size ≠ 12 then .error .fixedSize
        else if b.length ≠ 12 then .error .fixedSize
        else .ok (.duration (ofLeBytes (b.take 4)) (ofLeBytes ((b.drop 4).take 4)) (ofLeBytes ((b.drop 8).take 4)))
      | _ => .error .mismatch
    | .uuidString => match v with
      | .uuid b => .ok (.uuid b)
      | .string u => (match uuidParse u with | some b => .ok (.uuid b) | none => .error .badUuid)
      | _ => .error .mismatch
    | .uuidBytes => match v with
      | .uuid b => .ok (.uuid b)
      | .bytes b => if b.length = 16 then .ok (.uuid b) else .error .badUuid
      | _ => .error .mismatch
    | .uuidFixed _ _ => match v with
      | .uuid b => .ok (.uuid b)
      | .fixed n b => if n ≠ 16 then .error .fixedSize else if b.length = 16 then .ok (.uuid b) else .error .badUuid
      | .string u => if u.length ≠ 16 then .error .fixedSize else .ok (.uuid u)
      | _ => .error .mismatch

/-- `UnionSchema::find_schema_with_known_schemata` at a given recursion budget -/
def findBranch (fo : FloatOps) (cfg : Cfg) (env : Names) (fuel : Nat) (bs : List Schema) (v : Value) : Option (Nat × Schema) :=
  findBranchWith (fun b => (resolve fo cfg env fuel b v).toBool) bs v

/-! ### validation (`Value::validate_internal`): `true` = accepted -/

def validateFieldsWith (f : Schema → Value → Bool) (fields : List (FieldMeta × Schema)) : List (Bytes × Value) → Bool
  | [] => true
  | (name, v) :: rest =>
    (match fields.find? (fun ms => ms.1.name = name) with
     | some (_, s) => f s v
     | none => false) && validateFieldsWith f fields rest

/-- `Value::Fixed(n, bytes)` with `bytes.len() != n` -/
def fixedInconsistent : Value → Bool
  | .fixed n b => b.length != n
  | _ => false

def validate (fo : FloatOps) (cfg : Cfg) (env : Names) : Nat → Schema → Value → Bool
  | 0, _, _ => false
  | fuel+1, s, v =>
    match s with
    | .ref n => (match env.find? n with
      | some s' => validate fo cfg env fuel s' v
      | none => false)
    | _ =>
    -- a `Fixed(n, bytes)` whose two parts disagree is no value of any schema
    if fixedInconsistent v then false else
    match v, s with
    | .null, .null => true
    | .boolean _, .boolean => true
    | .int _, .int | .int _, .date | .int _, .timeMillis | .int _, .long => true
    | .long _, .long => true
    | .long _, .longL .timeMicros | .long _, .longL .tsMillis | .long _, .longL .tsMicros
    | .long _, .longL .ltsMillis | .long _, .longL .ltsMicros => true
    | .longL k _, .longL k' => k = k'
    | .timeMillis _, .timeMillis => true
    | .date _, .date => true
    | .decimal _ _, .decimal _ _ _ => true
    | .bigDecimal _ _, .bigDecimal => true
    | .duration _ _ _, .duration _ _ => true
    | .uuid _, .uuidString | .uuid _, .uuidBytes | .uuid _, .uuidFixed _ _ => true
    | .float _, .float | .float _, .double | .double _, .double => true
    | .bytes _, .bytes => true
    | .bytes _, .decimal _ _ _ => true
    | .bytes b, .uuidBytes => b.length = 16
    | .string _, .string => true
    | .string u, .uuidString => decide (32 ≤ u.length) && (uuidParse u).isSome
    | .fixed n _, .fixed _ size => n = size
    | .bytes b, .fixed _ size => b.length = size
    | .fixed n _, .duration _ _ => n = 12
    | .fixed n _, .uuidFixed _ size => size = 16 && n = 16
    | .fixed _ _, .decimal _ _ _ => true
    | .string u, .enum _ syms _ => syms.contains u
    | .enum i sym, .enum _ syms d =>
      (match syms[i]? with
       | some s' => s' = sym
       | none => d.isSome)
    | .union i inner, .union bs =>
      (match bs[i]? with
       | some b => validate fo cfg env fuel b inner
       | none => false)
    | w, .union bs => (findBranch fo cfg env fuel bs w).isSome
    | .array items, .array inner => items.all (validate fo cfg env fuel inner)
    | .map es, .map inner => es.all (fun kv => validate fo cfg env fuel inner kv.2)
    | .record vfs, .record _ fields =>
      let nonNullable := (fields.filter (fun ms => !isNullable ms.2)).length
      if vfs.length < nonNullable then false
      else if vfs.length > fields.length then false
      else validateFieldsWith (validate fo cfg env fuel) fields vfs
    | .map es, .record _ fields =>
      fields.all (fun ms => match mapGet es ms.1.name with
        | some item => validate fo cfg env fuel ms.2 item
        | none => isNullable ms.2)
    | _, _ => false

end Avro
