import AvroModel.Varint
import AvroModel.Prim
/-
Model of what is *the library's own code* in `codec.rs`: the snappy frame (raw snappy stream +
4-byte big-endian CRC-32 of the uncompressed data, length checks, size guard) and the output cap
of the streaming decoders (`take(max+1)` + length test).  The compressors themselves (miniz_oxide,
libbz2-rs, liblzma, snap, zstd) are parameters: `RawCodec`.
-/
namespace Avro

structure RawCodec where
  compress : Bytes → Bytes
  decompress : Bytes → Except Err Bytes
  /-- `snap::raw::decompress_len`: the length the stream header declares -/
  decompressLen : Bytes → Except Err Nat

/-! ### CRC-32 (IEEE 802.3, reflected), bit-serial — the specification of `crc32fast` -/

def crc32Step (c : BitVec 32) : BitVec 32 :=
  if c &&& 1#32 = 1#32 then (c >>> 1) ^^^ 0xEDB88320#32 else c >>> 1

def crc32StepN : Nat → BitVec 32 → BitVec 32
  | 0, c => c
  | n+1, c => crc32StepN n (crc32Step c)

def crc32Byte (c : BitVec 32) (b : UInt8) : BitVec 32 := crc32StepN 8 (c ^^^ BitVec.ofNat 32 b.toNat)

def crc32 (bs : Bytes) : Nat := (~~~(bs.foldl crc32Byte 0xFFFFFFFF#32)).toNat

/-! ### snappy frame -/

/-- `Codec::Snappy` in `compress`: the raw stream, then the checksum of the *uncompressed* data,
big-endian -/
def snappyCompress (raw : RawCodec) (x : Bytes) : Bytes := raw.compress x ++ beBytes 4 (crc32 x)

/-- `Codec::Snappy` in `decompress` -/
def snappyDecompress (lim : Nat) (raw : RawCodec) (s : Bytes) : Except Err Bytes :=
  if s.length < 4 then .error .other          -- `checked_sub(4)`: BadSnappyLength
  else
    let body := s.take (s.length - 4)
    let trailer := s.drop (s.length - 4)
    match raw.decompressLen body with
    | .error e => .error e
    | .ok size =>
      match safeLen lim size with              -- the declared size is untrusted
      | .error e => .error e
      | .ok _ =>
        match raw.decompress body with
        | .error e => .error e
        | .ok decoded =>
          if ofBeBytes trailer = crc32 decoded then .ok decoded else .error .mismatch

/-! ### output cap of the streaming decoders (zstd, bzip2, xz) -/

/-- `decoder.take(max_bytes + 1).read_to_end(&mut decoded); if decoded.len() > max_bytes { Err }`:
`stream` is everything the inner decoder would yield -/
def cappedRead (lim : Nat) (stream : Bytes) : Except Err Bytes :=
  let decoded := stream.take (lim + 1)
  if decoded.length > lim then .error .allocLimit else .ok decoded

end Avro
