import AvroModel.Basic
import AvroModel.Varint
import AvroModel.Prim
import AvroModel.Schema
import AvroModel.Encode
import AvroModel.Decode
import AvroModel.Conforms
import AvroModel.Alloc
