import AvroProofs.Lemmas.Varint
import AvroProofs.Lemmas.Datum
import AvroProofs.Lemmas.RoundTrip
import AvroProofs.Lemmas.DecodeSide
import AvroProofs.Lemmas.DecodeConforms
import AvroProofs.C01
import AvroProofs.C06
import AvroProofs.C05
