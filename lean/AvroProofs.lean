import AvroProofs.Lemmas.Varint
import AvroProofs.Lemmas.Datum
import AvroProofs.Lemmas.RoundTrip
import AvroProofs.C01
