import Driver.Wire
