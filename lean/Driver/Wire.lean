import AvroModel
/-
Line-protocol plumbing for the model driver (DESIGN.md Appendix B): s-expressions with
hex-encoded atoms.  Driver-only code (uses `partial`); nothing here is proved about.
-/
namespace Avro.Wire
open Avro

inductive Sexp
  | atom (s : String)
  | list (xs : List Sexp)
  deriving Inhabited, Repr

/-- parse a sequence of s-expressions up to a closing paren / end of input. -/
partial def parseSeq (cs : List Char) (acc : Array Sexp) : Array Sexp × List Char :=
  match cs with
  | [] => (acc, [])
  | ' ' :: r => parseSeq r acc
  | '\t' :: r => parseSeq r acc
  | '\n' :: r => parseSeq r acc
  | '\r' :: r => parseSeq r acc
  | ')' :: r => (acc, r)
  | '(' :: r =>
    let (inner, r') := parseSeq r #[]
    parseSeq r' (acc.push (.list inner.toList))
  | _ =>
    let tok := cs.takeWhile (fun c => c != ' ' && c != '(' && c != ')' && c != '\n' && c != '\r' && c != '\t')
    parseSeq (cs.drop tok.length) (acc.push (.atom (String.ofList tok)))

def parseLine (line : String) : List Sexp := (parseSeq line.toList #[]).1.toList

/-- canonical text of an s-expression (single spaces) -/
partial def Sexp.show : Sexp → String
  | .atom s => s
  | .list xs => "(" ++ " ".intercalate (xs.map Sexp.show) ++ ")"

def hexNib (c : Char) : Option Nat :=
  if '0' ≤ c && c ≤ '9' then some (c.toNat - 48)
  else if 'a' ≤ c && c ≤ 'f' then some (c.toNat - 87)
  else if 'A' ≤ c && c ≤ 'F' then some (c.toNat - 55)
  else none

partial def unhexChars : List Char → Array UInt8 → Option Bytes
  | [], acc => some acc.toList
  | [_], _ => none
  | h :: l :: r, acc =>
    match hexNib h, hexNib l with
    | some a, some b => unhexChars r (acc.push (UInt8.ofNat (a*16+b)))
    | _, _ => none

/-- `x<hex>` atom → bytes (`x` alone = empty). -/
def unhex (s : String) : Option Bytes :=
  match s.toList with
  | 'x' :: r => unhexChars r #[]
  | _ => none

def hexChar (n : Nat) : Char := if n < 10 then Char.ofNat (48+n) else Char.ofNat (87+n)

def hex (b : Bytes) : String :=
  String.ofList ('x' :: b.flatMap (fun x => [hexChar (x.toNat/16), hexChar (x.toNat%16)]))

def atomInt? : Sexp → Option Int
  | .atom s => s.toInt?
  | _ => none
def atomNat? : Sexp → Option Nat
  | .atom s => s.toNat?
  | _ => none
def atomBytes? : Sexp → Option Bytes
  | .atom s => unhex s
  | _ => none

def longKindOf : String → Option LongKind
  | "time-micros" => some .timeMicros | "ts-millis" => some .tsMillis | "ts-micros" => some .tsMicros
  | "ts-nanos" => some .tsNanos | "lts-millis" => some .ltsMillis | "lts-micros" => some .ltsMicros
  | "lts-nanos" => some .ltsNanos | _ => none

def longKindName : LongKind → String
  | .timeMicros => "time-micros" | .tsMillis => "ts-millis" | .tsMicros => "ts-micros"
  | .tsNanos => "ts-nanos" | .ltsMillis => "lts-millis" | .ltsMicros => "lts-micros"
  | .ltsNanos => "lts-nanos"

partial def parseJson : Sexp → Option Json
  | .atom "jnull" => some .null
  | .atom "jtrue" => some (.bool true)
  | .atom "jfalse" => some (.bool false)
  | .list [.atom "ji", n] => (atomInt? n).map .int
  | .list [.atom "jf", .atom h] => (String.toNat? h).map (fun n => .float (UInt64.ofNat n))
  | .list [.atom "js", s] => (atomBytes? s).map .str
  | .list (.atom "ja" :: xs) => (xs.mapM parseJson).map .arr
  | .list (.atom "jo" :: kvs) =>
    (kvs.mapM (fun (kv : Sexp) => match kv with
      | .list [k, v] => do let k ← atomBytes? k; let v ← parseJson v; pure (k, v)
      | _ => none)).map .obj
  | _ => none

partial def parseSchema : Sexp → Option Schema
  | .atom "null" => some .null | .atom "boolean" => some .boolean | .atom "int" => some .int
  | .atom "long" => some .long | .atom "float" => some .float | .atom "double" => some .double
  | .atom "bytes" => some .bytes | .atom "string" => some .string | .atom "date" => some .date
  | .atom "time-millis" => some .timeMillis | .atom "bigdecimal" => some .bigDecimal
  | .atom "uuid-string" => some .uuidString | .atom "uuid-bytes" => some .uuidBytes
  | .atom a => (longKindOf a).map .longL
  | .list [.atom "array", s] => (parseSchema s).map .array
  | .list [.atom "map", s] => (parseSchema s).map .map
  | .list (.atom "union" :: bs) => (bs.mapM parseSchema).map .union
  | .list (.atom "record" :: n :: fs) => do
    let n ← atomBytes? n
    let fs ← fs.mapM (fun (f : Sexp) => match f with
      | .list [.atom "field", fnm, .list als, dflt, s] => do
        let fnm ← atomBytes? fnm
        let als ← als.mapM atomBytes?
        let d ← (match dflt with
          | .atom "nodefault" => some none
          | j => (parseJson j).map some)
        let s ← parseSchema s
        pure ({ name := fnm, aliases := als, default := d : FieldMeta }, s)
      | _ => none)
    pure (.record n fs)
  | .list [.atom "enum", n, .list syms, d] => do
    let n ← atomBytes? n
    let syms ← syms.mapM atomBytes?
    let d ← (match d with
      | .atom "nodefault" => some none
      | x => (atomBytes? x).map some)
    pure (.enum n syms d)
  | .list [.atom "fixed", n, sz] => do pure (.fixed (← atomBytes? n) (← atomNat? sz))
  | .list [.atom "decimal", p, sc, .atom "bytes"] => do
    pure (.decimal (← atomNat? p) (← atomNat? sc) .bytes)
  | .list [.atom "decimal", p, sc, .list [.atom "fixed", n, sz]] => do
    pure (.decimal (← atomNat? p) (← atomNat? sc) (.fixed (← atomBytes? n) (← atomNat? sz)))
  | .list [.atom "uuid-fixed", n, sz] => do pure (.uuidFixed (← atomBytes? n) (← atomNat? sz))
  | .list [.atom "duration", n, sz] => do pure (.duration (← atomBytes? n) (← atomNat? sz))
  | .list [.atom "ref", n] => (atomBytes? n).map .ref
  | _ => none

def parseNames : Sexp → Option Names
  | .list es => es.mapM (fun (e : Sexp) => match e with
    | .list [n, s] => do pure ((← atomBytes? n), (← parseSchema s))
    | _ => none)
  | _ => none

partial def parseValue : Sexp → Option Value
  | .atom "n" => some .null
  | .list [.atom "b", .atom "0"] => some (.boolean false)
  | .list [.atom "b", .atom "1"] => some (.boolean true)
  | .list [.atom "i", n] => (atomInt? n).map .int
  | .list [.atom "l", n] => (atomInt? n).map .long
  | .list [.atom "f", n] => (atomNat? n).map (fun n => .float (UInt32.ofNat n))
  | .list [.atom "d", n] => (atomNat? n).map (fun n => .double (UInt64.ofNat n))
  | .list [.atom "by", b] => (atomBytes? b).map .bytes
  | .list [.atom "s", b] => (atomBytes? b).map .string
  | .list [.atom "fx", n, b] => do pure (.fixed (← atomNat? n) (← atomBytes? b))
  | .list [.atom "en", i, s] => do pure (.enum (← atomNat? i) (← atomBytes? s))
  | .list [.atom "un", i, v] => do pure (.union (← atomNat? i) (← parseValue v))
  | .list (.atom "ar" :: vs) => (vs.mapM parseValue).map .array
  | .list (.atom "mp" :: es) => (es.mapM (fun (e : Sexp) => match e with
      | .list [k, v] => do pure ((← atomBytes? k), (← parseValue v))
      | _ => none)).map .map
  | .list (.atom "rc" :: es) => (es.mapM (fun (e : Sexp) => match e with
      | .list [k, v] => do pure ((← atomBytes? k), (← parseValue v))
      | _ => none)).map .record
  | .list [.atom "date", n] => (atomInt? n).map .date
  | .list [.atom "time-millis", n] => (atomInt? n).map .timeMillis
  | .list [.atom "dec", u, len] => do pure (.decimal (← atomInt? u) (← atomNat? len))
  | .list [.atom "bigdec", u, sc] => do pure (.bigDecimal (← atomInt? u) (← atomInt? sc))
  | .list [.atom "dur", a, b, c] => do pure (.duration (← atomNat? a) (← atomNat? b) (← atomNat? c))
  | .list [.atom "uuid", b] => (atomBytes? b).map .uuid
  | .list [.atom k, n] => do pure (.longL (← longKindOf k) (← atomInt? n))
  | _ => none

def bytesLt : Bytes → Bytes → Bool
  | [], [] => false
  | [], _ :: _ => true
  | _ :: _, [] => false
  | a :: as, b :: bs => if a < b then true else if a > b then false else bytesLt as bs

partial def insertSorted (k : Bytes) (s : String) : List (Bytes × String) → List (Bytes × String)
  | [] => [(k, s)]
  | (k', s') :: r => if bytesLt k k' then (k, s) :: (k', s') :: r else (k', s') :: insertSorted k s r

partial def showJson : Json → String
  | .null => "jnull"
  | .bool true => "jtrue"
  | .bool false => "jfalse"
  | .int n => s!"(ji {n})"
  | .float b => s!"(jf {b.toNat})"
  | .str s => s!"(js {hex s})"
  | .arr xs => "(ja" ++ String.join (xs.map (fun x => " " ++ showJson x)) ++ ")"
  | .obj kvs => "(jo" ++ String.join (kvs.map (fun kv => s!" ({hex kv.1} {showJson kv.2})")) ++ ")"

/-- what the serializer writes, as an ordered token tree in the JSON wire grammar -/
partial def showJOut : JOut → String
  | .str s => s!"(js {hex s})"
  | .num n => s!"(ji {n})"
  | .arr xs => "(ja" ++ String.join (xs.map (fun x => " " ++ showJOut x)) ++ ")"
  | .obj kvs => "(jo" ++ String.join (kvs.map (fun kv => s!" ({hex kv.1} {showJOut kv.2})")) ++ ")"
  | .raw j => showJson j

partial def parseSerde : Sexp → Option SerdeVal
  | .atom "none" => some .none
  | .atom "unit" => some .unit
  | .list [.atom "bool", .atom b] => some (.bool (b == "1"))
  | .list [.atom "i8", n] => (atomInt? n).map .i8
  | .list [.atom "i16", n] => (atomInt? n).map .i16
  | .list [.atom "i32", n] => (atomInt? n).map .i32
  | .list [.atom "i64", n] => (atomInt? n).map .i64
  | .list [.atom "u8", n] => (atomInt? n).map .u8
  | .list [.atom "u16", n] => (atomInt? n).map .u16
  | .list [.atom "u32", n] => (atomInt? n).map .u32
  | .list [.atom "f32", n] => (atomNat? n).map (fun b => .f32 (UInt32.ofNat b))
  | .list [.atom "f64", n] => (atomNat? n).map (fun b => .f64 (UInt64.ofNat b))
  | .list [.atom "char", b] => (atomBytes? b).map .char
  | .list [.atom "str", b] => (atomBytes? b).map .str
  | .list [.atom "bytes", b] => (atomBytes? b).map .bytes
  | .list [.atom "some", v] => (parseSerde v).map .some
  | .list [.atom "ustruct", n] => (atomBytes? n).map .unitStruct
  | .list [.atom "uvar", n, i, v] => do pure (.unitVariant (← atomBytes? n) (← atomNat? i) (← atomBytes? v))
  | .list [.atom "nstruct", n, v] => do pure (.newtypeStruct (← atomBytes? n) (← parseSerde v))
  | .list (.atom "seq" :: l :: items) => do
    let len : Option Nat := match l with | .atom "-" => none | x => atomNat? x
    pure (.seq len (← items.mapM parseSerde))
  | .list (.atom "tuple" :: items) => (items.mapM parseSerde).map .tuple
  | .list (.atom "tstruct" :: n :: items) => do pure (.tupleStruct (← atomBytes? n) (← items.mapM parseSerde))
  | .list (.atom "map" :: l :: entries) => do
    let len : Option Nat := match l with | .atom "-" => none | x => atomNat? x
    let es ← entries.mapM (fun (e : Sexp) => match e with
      | .list [k, v] => (do pure ((← parseSerde k), (← parseSerde v)) : Option (SerdeVal × SerdeVal))
      | _ => none)
    pure (.map len es)
  | .list (.atom "struct" :: n :: fields) => do
    let fs ← fields.mapM (fun (e : Sexp) => match e with
      | .list [k, .atom "skip"] => (do pure ((← atomBytes? k), none) : Option (Bytes × Option SerdeVal))
      | .list [k, v] => (do pure ((← atomBytes? k), some (← parseSerde v)) : Option (Bytes × Option SerdeVal))
      | _ => none)
    pure (.struct (← atomBytes? n) fs)
  | _ => none

def optBytes? : Sexp → Option (Option Bytes)
  | .atom "-" => some none
  | x => (atomBytes? x).map some

def ruleOf : String → Option RenameRule
  | "none" => some .none | "lower" => some .lower | "upper" => some .upper | "pascal" => some .pascal
  | "camel" => some .camel | "snake" => some .snake | "ssnake" => some .screamingSnake
  | "kebab" => some .kebab | "skebab" => some .screamingKebab | _ => none

partial def parseTy : Sexp → Option TyExpr
  | .atom "bool" => some .bool | .atom "i8" => some .i8 | .atom "i16" => some .i16 | .atom "i32" => some .i32
  | .atom "i64" => some .i64 | .atom "u8" => some .u8 | .atom "u16" => some .u16 | .atom "u32" => some .u32
  | .atom "f32" => some .f32 | .atom "f64" => some .f64 | .atom "string" => some .string | .atom "char" => some .char
  | .atom "u64" => some .u64 | .atom "i128" => some .i128 | .atom "u128" => some .u128
  | .list [.atom "option", t] => (parseTy t).map .option
  | .list [.atom "vec", t] => (parseTy t).map .vec
  | .list [.atom "map", t] => (parseTy t).map .map
  | .list [.atom "boxed", t] => (parseTy t).map .boxed
  | .list [.atom "named", i] => (atomBytes? i).map .named
  | _ => none

def parseFieldDef : Sexp → Option FieldDef
  | .list [.atom "field", ident, ty, rename, .atom skip, dflt, .list aliases, doc, .atom flatten] => do
    let d : Option Json ← (match dflt with | .atom "-" => some none | j => (parseJson j).map some)
    pure { ident := (← atomBytes? ident), ty := (← parseTy ty), rename := (← optBytes? rename), skip := skip == "1",
           default := d, aliases := (← aliases.mapM atomBytes?), doc := (← optBytes? doc), flatten := flatten == "1" }
  | _ => none

def parseShape : Sexp → Option VariantShape
  | .atom "unit" => some .unit
  | .list (.atom "tuple" :: tys) => (tys.mapM parseTy).map .tuple
  | .list (.atom "struct" :: fields) => (fields.mapM parseFieldDef).map .struct
  | _ => none

def parseVariantDef : Sexp → Option VariantDef
  | .list [.atom "var", ident, rename, .atom skip, .atom dflt, .atom rule, shape] => do
    pure { ident := (← atomBytes? ident), rename := (← optBytes? rename), skip := skip == "1", isDefault := dflt == "1",
           renameAll := (← ruleOf rule), shape := (← parseShape shape) }
  | _ => none

def parseTypeDef : Sexp → Option TypeDef
  | .list [.atom "struct", ident, name, doc, .list aliases, .atom rule, .list (.atom "fields" :: fields)] => do
    pure (.struct (← atomBytes? ident) (← atomBytes? name) (← optBytes? doc) (← aliases.mapM atomBytes?) (← ruleOf rule)
            (← fields.mapM parseFieldDef))
  | .list [.atom "enumrepr", repr, ident, name, doc, .list aliases, .atom rule, .atom rulef, .list (.atom "variants" :: vs)] => do
    let r : EnumRepr ← (match repr with
      | .atom "bare" => some .bareUnion
      | .list [.atom "tagcontent", t, c] => do pure (.tagContent (← atomBytes? t) (← atomBytes? c))
      | .list [.atom "internal", t] => do pure (.internalTag (← atomBytes? t))
      | _ => none)
    pure (.enumRepr r (← atomBytes? ident) (← atomBytes? name) (← optBytes? doc) (← aliases.mapM atomBytes?) (← ruleOf rule) (← ruleOf rulef)
            (← vs.mapM parseVariantDef))
  | .list [.atom "transparent", ident, .list (.atom "fields" :: fields)] => do
    pure (.transparent (← atomBytes? ident) (← fields.mapM parseFieldDef))
  | .list [.atom "enum", ident, name, doc, .list aliases, .atom rule, .atom rulef, .list (.atom "variants" :: vs)] => do
    pure (.enum (← atomBytes? ident) (← atomBytes? name) (← optBytes? doc) (← aliases.mapM atomBytes?) (← ruleOf rule) (← ruleOf rulef)
            (← vs.mapM parseVariantDef))
  | _ => none

/-- canonical text of a value: the same grammar the harness prints; map entries sorted by key. -/
partial def showValue : Value → String
  | .null => "n"
  | .boolean b => if b then "(b 1)" else "(b 0)"
  | .int n => s!"(i {n})"
  | .long n => s!"(l {n})"
  | .float b => s!"(f {b.toNat})"
  | .double b => s!"(d {b.toNat})"
  | .bytes b => s!"(by {hex b})"
  | .string b => s!"(s {hex b})"
  | .fixed n b => s!"(fx {n} {hex b})"
  | .enum i s => s!"(en {i} {hex s})"
  | .union i v => s!"(un {i} {showValue v})"
  | .array vs => "(ar" ++ String.join (vs.map (fun v => " " ++ showValue v)) ++ ")"
  | .map es =>
    let sorted := es.foldl (fun acc kv => insertSorted kv.1 (showValue kv.2) acc) []
    "(mp" ++ String.join (sorted.map (fun kv => s!" ({hex kv.1} {kv.2})")) ++ ")"
  | .record fs => "(rc" ++ String.join (fs.map (fun kv => s!" ({hex kv.1} {showValue kv.2})")) ++ ")"
  | .date n => s!"(date {n})"
  | .timeMillis n => s!"(time-millis {n})"
  | .longL k n => s!"({longKindName k} {n})"
  | .decimal u len => s!"(dec {u} {len})"
  | .bigDecimal u sc => s!"(bigdec {u} {sc})"
  | .duration a b c => s!"(dur {a} {b} {c})"
  | .uuid b => s!"(uuid {hex b})"

end Avro.Wire
