import AvroModel
import Driver.Wire
/-
`avro_model`: reads one request per line on stdin, prints one response per line.
Every line is self-contained, so each line is its own replay.
-/
open Avro Avro.Wire

def bigFuel : Nat := 100000

def respond (line : String) : String :=
  match parseLine line with
  -- primitives
  | [.atom "zig", n] => match atomInt? n with
    | some n => s!"{zig n}" | none => "bad-request"
  | [.atom "zag", z] => match atomNat? z with
    | some z => s!"{zag z}" | none => "bad-request"
  | [.atom "encvar", z] => match atomNat? z with
    | some z => hex (encodeVar z) | none => "bad-request"
  | [.atom "enclong", n] => match atomInt? n with
    | some n => hex (encLong n) | none => "bad-request"
  | [.atom "decvar", b] => match atomBytes? b with
    | some b => (match decodeVar b with
      | .ok (z, r) => s!"ok {z} {r.length}"
      | .error e => s!"err {e}")
    | none => "bad-request"
  | [.atom "declong", b] => match atomBytes? b with
    | some b => (match decLong b with
      | .ok (z, r) => s!"ok {z} {r.length}"
      | .error e => s!"err {e}")
    | none => "bad-request"
  | [.atom "decint", b] => match atomBytes? b with
    | some b => (match decInt b with
      | .ok (z, r) => s!"ok {z} {r.length}"
      | .error e => s!"err {e}")
    | none => "bad-request"
  | [.atom "utf8", b] => match atomBytes? b with
    | some b => if validUtf8 b then "1" else "0" | none => "bad-request"
  | [.atom "sbe", n] => match atomInt? n with
    | some n => hex (toSignedBE n) | none => "bad-request"
  | [.atom "fsbe", b] => match atomBytes? b with
    | some b => s!"{fromSignedBE b}" | none => "bad-request"
  | [.atom "sext", n, len] => match atomInt? n, atomNat? len with
    | some n, some len => (match signExtend n len with
      | .ok b => s!"ok {hex b}" | .error e => s!"err {e}")
    | _, _ => "bad-request"
  | [.atom "uuidparse", b] => match atomBytes? b with
    | some b => (match uuidParse b with | some u => s!"ok {hex u}" | none => "err")
    | none => "bad-request"
  | [.atom "uuidtext", b] => match atomBytes? b with
    | some b => hex (uuidToText b) | none => "bad-request"
  -- datum layer
  | [.atom "enc", names, schema, value] =>
    match parseNames names, parseSchema schema, parseValue value with
    | some env, some s, some v =>
      (match encode env bigFuel s v with
       | .ok b => s!"ok {hex b}"
       | .error e => s!"err {e}")
    | _, _, _ => "bad-request"
  | [.atom "dec", lim, szv, sze, names, schema, bytes] =>
    match atomNat? lim, atomNat? szv, atomNat? sze, parseNames names, parseSchema schema, atomBytes? bytes with
    | some lim, some szv, some sze, some env, some s, some b =>
      (match decode { lim := lim, szValue := szv, szEntry := sze } env bigFuel s b with
       | .ok (v, r) => s!"ok {showValue v} {r.length}"
       | .error e => s!"err {e}")
    | _, _, _, _, _, _ => "bad-request"
  | [.atom "sinkwriteall", .list steps, payload] =>
    let script := steps.filterMap (fun (st : Sexp) => match st with
      | .list [.atom "a", k] => (atomNat? k).map SinkStep.accept
      | .list [.atom "f", .atom "1"] => some (SinkStep.fail true)
      | .list [.atom "f", .atom "0"] => some (SinkStep.fail false)
      | _ => none)
    match atomBytes? payload with
    | some b =>
      let (st', r) := Sink.writeAll { script := script, delivered := [] } b
      (match r with
       | .ok _ => s!"ok {hex st'.delivered}"
       | .error .writeZero => s!"err write-zero {hex st'.delivered}"
       | .error _ => s!"err io {hex st'.delivered}")
    | none => "bad-request"
  | _ => "bad-request"

partial def loop (h : IO.FS.Stream) (out : IO.FS.Stream) : IO Unit := do
  let line ← h.getLine
  if line.isEmpty then return ()
  out.putStrLn (respond line)
  loop h out

def main : IO Unit := do
  let out ← IO.getStdout
  loop (← IO.getStdin) out
  out.flush
