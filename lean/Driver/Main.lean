import AvroModel
import Driver.Wire
/-
`avro_model`: reads one request per line on stdin, prints one response per line.
Every line is self-contained, so each line is its own replay.
-/
open Avro Avro.Wire

def bigFuel : Nat := 100000

/-- the platform's IEEE conversions (x86-64 semantics for NaNs: payload kept, quiet bit set) -/
def f32to64 (x : UInt32) : UInt64 :=
  let e := (x >>> 23) &&& 0xFF
  let m := x &&& 0x7FFFFF
  if e == 0xFF && m != 0 then
    ((x >>> 31).toUInt64 <<< 63) ||| ((0x7FF : UInt64) <<< 52) ||| ((m ||| 0x400000).toUInt64 <<< 29)
  else (Float32.ofBits x).toFloat.toBits

def f64to32 (x : UInt64) : UInt32 :=
  let e := (x >>> 52) &&& 0x7FF
  let m := x &&& 0xFFFFFFFFFFFFF
  if e == 0x7FF && m != 0 then
    ((x >>> 63).toUInt32 <<< 31) ||| ((0xFF : UInt32) <<< 23) ||| ((m >>> 29).toUInt32 ||| 0x400000)
  else (Float.ofBits x).toFloat32.toBits

def floatOps : FloatOps :=
  { i2f32 := fun n => (Float32.ofInt n).toBits
    i2f64 := fun n => (Float.ofInt n).toBits
    f32to64 := f32to64
    f64to32 := f64to32 }

def respond (line : String) : String :=
  match parseLine line with
  -- primitives
  | [.atom "zig", n] => match atomInt? n with
    | some n => s!"{zig n}" | none => "bad-request"
  | [.atom "zag", z] => match atomNat? z with
    | some z => s!"{zag z}" | none => "bad-request"
  | [.atom "encvar", z] => match atomNat? z with
    | some z => hex (encodeVar z) | none => "bad-request"
  | [.atom "enclong", n] => match atomInt? n with
    | some n => hex (encLong n) | none => "bad-request"
  | [.atom "decvar", b] => match atomBytes? b with
    | some b => (match decodeVar b with
      | .ok (z, r) => s!"ok {z} {r.length}"
      | .error e => s!"err {e}")
    | none => "bad-request"
  | [.atom "declong", b] => match atomBytes? b with
    | some b => (match decLong b with
      | .ok (z, r) => s!"ok {z} {r.length}"
      | .error e => s!"err {e}")
    | none => "bad-request"
  | [.atom "decint", b] => match atomBytes? b with
    | some b => (match decInt b with
      | .ok (z, r) => s!"ok {z} {r.length}"
      | .error e => s!"err {e}")
    | none => "bad-request"
  | [.atom "utf8", b] => match atomBytes? b with
    | some b => if validUtf8 b then "1" else "0" | none => "bad-request"
  | [.atom "sbe", n] => match atomInt? n with
    | some n => hex (toSignedBE n) | none => "bad-request"
  | [.atom "fsbe", b] => match atomBytes? b with
    | some b => s!"{fromSignedBE b}" | none => "bad-request"
  | [.atom "sext", n, len] => match atomInt? n, atomNat? len with
    | some n, some len => (match signExtend n len with
      | .ok b => s!"ok {hex b}" | .error e => s!"err {e}")
    | _, _ => "bad-request"
  | [.atom "uuidparse", b] => match atomBytes? b with
    | some b => (match uuidParse b with | some u => s!"ok {hex u}" | none => "err")
    | none => "bad-request"
  | [.atom "uuidtext", b] => match atomBytes? b with
    | some b => hex (uuidToText b) | none => "bad-request"
  -- datum layer
  | [.atom "enc", names, schema, value] =>
    match parseNames names, parseSchema schema, parseValue value with
    | some env, some s, some v =>
      (match encode env bigFuel s v with
       | .ok b => s!"ok {hex b}"
       | .error e => s!"err {e}")
    | _, _, _ => "bad-request"
  | [.atom "dec", lim, szv, sze, names, schema, bytes] =>
    match atomNat? lim, atomNat? szv, atomNat? sze, parseNames names, parseSchema schema, atomBytes? bytes with
    | some lim, some szv, some sze, some env, some s, some b =>
      (match decode { lim := lim, szValue := szv, szEntry := sze } env bigFuel s b with
       | .ok (v, r) => s!"ok {showValue v} {r.length}"
       | .error e => s!"err {e}")
    | _, _, _, _, _, _ => "bad-request"
  | [.atom "sinkwriteall", .list steps, payload] =>
    let script := steps.filterMap (fun (st : Sexp) => match st with
      | .list [.atom "a", k] => (atomNat? k).map SinkStep.accept
      | .list [.atom "f", .atom "1"] => some (SinkStep.fail true)
      | .list [.atom "f", .atom "0"] => some (SinkStep.fail false)
      | _ => none)
    match atomBytes? payload with
    | some b =>
      let (st', r) := Sink.writeAll { script := script, delivered := [] } b
      (match r with
       | .ok _ => s!"ok {hex st'.delivered}"
       | .error .writeZero => s!"err write-zero {hex st'.delivered}"
       | .error _ => s!"err io {hex st'.delivered}")
    | none => "bad-request"
  | [.atom "rdfile", lim, szv, sze, names, schema, bytes] =>
    match atomNat? lim, atomNat? szv, atomNat? sze, parseNames names, parseSchema schema, atomBytes? bytes with
    | some lim, some szv, some sze, some env, some s, some b =>
      (match readFile { lim := lim, szValue := szv, szEntry := sze } Codec.null env bigFuel s b with
       | .error _ => "err open"
       | .ok (md, marker, vs, fin) =>
         let ms := md.foldl (fun acc kv => insertSorted kv.1 (hex kv.2) acc) []
         let mstr := String.join (ms.map (fun kv => s!" ({hex kv.1} {kv.2})"))
         let vstr := String.join (vs.map (fun v => " " ++ showValue v))
         let e := match fin with | .clean => "clean" | .error _ => "err"
         s!"hdr ({mstr.drop 1}) {hex marker} items ({vstr.drop 1}) end {e}")
    | _, _, _, _, _, _ => "bad-request"
  | [.atom "rditems", lim, szv, sze, names, schema, bytes] =>
    match atomNat? lim, atomNat? szv, atomNat? sze, parseNames names, parseSchema schema, atomBytes? bytes with
    | some lim, some szv, some sze, some env, some s, some b =>
      (match readFile { lim := lim, szValue := szv, szEntry := sze } Codec.null env bigFuel s b with
       | .error _ => "err open"
       | .ok (_, _, vs, fin) =>
         let vstr := String.join (vs.map (fun v => " " ++ showValue v))
         let e := match fin with | .clean => "clean" | .error _ => "err"
         s!"items ({vstr.drop 1}) end {e}")
    | _, _, _, _, _, _ => "bad-request"
  | [.atom "rabin", b] => match atomBytes? b with
    | some b => hex (rabinDigest b) | none => "bad-request"
  | [.atom "sohdr", pcf] => match atomBytes? pcf with
    | some p => hex (soHeader p) | none => "bad-request"
  | [.atom "somsg", pcf, names, schema, value] =>
    match atomBytes? pcf, parseNames names, parseSchema schema, parseValue value with
    | some p, some env, some s, some v =>
      (match encode env bigFuel s v with
       | .ok e => (match (SoWriter.write { buffer := soHeader p } (some e) true) with
          | (_, msg, some _) => s!"ok {hex msg}"
          | _ => "err")
       | .error _ => "err")
    | _, _, _, _ => "bad-request"
  | [.atom "sord", pcf, lim, szv, sze, names, schema, bytes] =>
    match atomBytes? pcf, atomNat? lim, atomNat? szv, atomNat? sze, parseNames names, parseSchema schema, atomBytes? bytes with
    | some p, some lim, some szv, some sze, some env, some s, some b =>
      (match soRead { lim := lim, szValue := szv, szEntry := sze } env bigFuel s (soHeader p) b with
       | .ok (v, r) => s!"ok {showValue v} {r.length}"
       | .error e => s!"err {e}")
    | _, _, _, _, _, _, _ => "bad-request"
  | [.atom "once", .list ops] =>
    let parsed := ops.filterMap (fun (e : Sexp) => match e with
      | .list [.atom "g", x] => (atomInt? x).map OnceOp.getOrInit
      | .list [.atom "s", x] => (atomInt? x).map OnceOp.set
      | _ => none)
    let (_, outs) := OnceCell.run ({ v := none } : OnceCell Int) parsed
    String.intercalate " " (outs.map (fun o => match o with
      | .value x => s!"v{x}"
      | .setOk => "ok"
      | .setErr x => s!"e{x}"))
  | [.atom "crc32", b] => match atomBytes? b with
    | some b => s!"{crc32 b}" | none => "bad-request"
  | [.atom "capread", lim, n] => match atomNat? lim, atomNat? n with
    | some lim, some n => (match cappedRead lim (List.replicate n 0x55) with | .ok _ => "ok" | .error _ => "err")
    | _, _ => "bad-request"
  | [.atom "val", lim, names, schema, value] =>
    match atomNat? lim, parseNames names, parseSchema schema, parseValue value with
    | some lim, some env, some s, some v => if validate floatOps { lim := lim } env bigFuel s v then "ok" else "rej"
    | _, _, _, _ => "bad-request"
  | [.atom "sjson", lim, j] =>
    -- parse a schema text (given as a JSON value) and serialize it again
    match atomNat? lim, parseJson j with
    | some lim, some j =>
      (match parseTop (defaultOk bigFuel lim) bigFuel j with
       | some s => s!"ok {showJOut (toJson s)}"
       | none => "err")
    | _, _ => "bad-request"
  | [.atom "pcf", lim, j] =>
    match atomNat? lim, parseJson j with
    | some lim, some j =>
      (match parseTop (defaultOk bigFuel lim) bigFuel j with
       | some s => (match canonicalForm bigFuel s with
         | some t => s!"ok {hex t} {(crc64Avro t).toNat}"
         | none => "err panic")
       | none => "err")
    | _, _ => "bad-request"
  | [.atom "plist", lim, .list texts, .list observed] =>
    -- `Schema::parse_list`: every outcome the crate was seen to produce must be one the model can produce
    -- under SOME hash order of the pending inputs
    match atomNat? lim, texts.mapM parseJson with
    | some lim, some texts =>
      let outcome (r : Option (List PSchema)) : String := match r with
        | none => "err"
        | some l => "(ok" ++ String.join (l.map (fun s => " " ++ showJOut (toJson s))) ++ ")"
      let possible : List String := match inputNames texts [] with
        | none => ["err"]
        | some named => ((perms named).map (fun p => outcome (parseListWith (defaultOk bigFuel lim) bigFuel texts (fun _ => p)))).eraseDups
      let obs : List String := observed.map Sexp.show
      (match obs.find? (fun o => !possible.contains o) with
       | none => "ok"
       | some o => s!"bad: observed {o} is none of the {possible.length} possible outcomes {possible}")
    | _, _ => "bad-request"
  | [.atom "pwlist", lim, schema, .list texts, .list observed] =>
    match atomNat? lim, parseJson schema, texts.mapM parseJson with
    | some lim, some schema, some texts =>
      let outcome (r : Option (PSchema × List PSchema)) : String := match r with
        | none => "err"
        | some (m, l) => "(ok " ++ showJOut (toJson m) ++ String.join (l.map (fun s => " " ++ showJOut (toJson s))) ++ ")"
      let possible : List String := match inputNames texts [] with
        | none => ["err"]
        | some named => ((perms named).map (fun p => outcome (parseStrWithList (defaultOk bigFuel lim) bigFuel schema texts (fun _ => p)))).eraseDups
      let obs : List String := observed.map Sexp.show
      (match obs.find? (fun o => !possible.contains o) with
       | none => "ok"
       | some o => s!"bad: observed {o} is none of the {possible.length} possible outcomes {possible}")
    | _, _, _ => "bad-request"
  | [.atom "sser", tbs, names, schema, v] =>
    -- the schema-aware serde serializer: bytes and returned count
    match parseNames names, parseSchema schema, parseSerde v with
    | some env, some s, some x =>
      let t : Option Nat := match tbs with | .atom "-" => none | y => atomNat? y
      (match serS t env bigFuel s x with
       | .ok (b, n) => s!"ok {hex b} {n}"
       | .error e => s!"err {e}")
    | _, _, _ => "bad-request"
  | [.atom "derive", .list defs, ident] =>
    -- `T::get_schema()` of a derived type, given the definitions of all types it may mention
    match defs.mapM parseTypeDef, atomBytes? ident with
    | some env, some ident =>
      (match deriveSchema env 200 ident with
       | some s => s!"ok {showJOut (toJson s)}"
       | none => "panic")
    | _, _ => "bad-request"
  | [.atom "compat", w, r] =>
    match parseSchema w, parseSchema r with
    | some w, some r =>
      let shw (c : Option Compat) : String := match c with | some .full => "full" | some .part => "partial" | none => "err"
      s!"{shw (canRead bigFuel w r)} {shw (mutualRead bigFuel w r)}"
    | _, _ => "bad-request"
  | [.atom "res", lim, names, schema, value] =>
    match atomNat? lim, parseNames names, parseSchema schema, parseValue value with
    | some lim, some env, some s, some v =>
      (match resolve floatOps { lim := lim } env bigFuel s v with
       | .ok w => s!"ok {showValue w}"
       | .error e => s!"err {e}")
    | _, _, _, _ => "bad-request"
  | [.atom "wrcheck", bsz, .list fmeta, marker, .list ops, implFile, implResS] =>
    let implRes : List Sexp := match implResS with | .list l => l | _ => []
    match atomNat? bsz, atomBytes? marker, atomBytes? implFile with
    | some bsz, some marker, some implFile =>
      let fm := fmeta.filterMap (fun (e : Sexp) => match e with
        | .list [k, v] => (do pure ((← atomBytes? k), (← atomBytes? v)) : Option (Bytes × Bytes))
        | _ => none)
      let cfg : WCfg := { blockSize := bsz, fixedMeta := fm, codec := Codec.null }
      let parseOp (e : Sexp) : Option WOp := match e with
        | .list [.atom "ap", b] => (atomBytes? b).map WOp.append
        | .list [.atom "ae"] => some .appendEncodeError
        | .list [.atom "ar"] => some .appendRejected
        | .list [.atom "fl"] => some .flush
        | .list [.atom "am", k, v] => do pure (.addMeta (← atomBytes? k) (← atomBytes? v))
        | .list [.atom "rs", m] => (atomBytes? m).map WOp.reset
        | .list [.atom "fi"] => some .finish
        | .list [.atom "reopen"] => some .reopen
        | _ => none
      -- an op of the history is one model op or a `(seq op…)` whose results are summed (extend*)
      let parseGroup (e : Sexp) : Option (List WOp) := match e with
        | .list (.atom "seq" :: subs) => subs.mapM parseOp
        | other => (parseOp other).map (fun o => [o])
      match ops.mapM parseGroup with
      | none => "bad-request"
      | some wops =>
        let runGroup (st : WState) (g : List WOp) : WState × Option Nat :=
          g.foldl (fun (acc : WState × Option Nat) op =>
            let (st', out) := Writer.step cfg acc.1 op
            (st', match acc.2, out with | some a, some b => some (a + b) | _, _ => none)) (st, some 0)
        let rec go (st : WState) (ops : List (List WOp)) (res : List Sexp) (i : Nat) : Except String WState :=
          match ops, res with
          | [], _ => .ok st
          | g :: ops', r :: res' =>
            let (st', out) := runGroup st g
            let agree := match r, out with
              | .list [.atom "ok", .atom "-1", .atom l], some _ => l == toString st'.sink.length
              | .list [.atom "ok", .atom n, .atom l], some m => n == toString m && l == toString st'.sink.length
              | .list [.atom "err", .atom l], none => l == toString st'.sink.length
              | _, _ => false
            if agree then go st' ops' res' (i+1)
            else .error s!"op {i}: model result {out} sink {st'.sink.length}"
          | g :: ops', [] => go (runGroup st g).1 ops' [] (i+1)
        match go { marker := marker } wops implRes 0 with
        | .error e => s!"differ {e}"
        | .ok st =>
          let lim := 1000000000
          match readHeader { lim := lim } bigFuel st.sink, readHeader { lim := lim } bigFuel implFile with
          | .ok (m1, k1, r1), .ok (m2, k2, r2) =>
            let srt (m : List (Bytes × Bytes)) := m.foldl (fun acc kv => insertSorted kv.1 (hex kv.2) acc) []
            if srt m1 != srt m2 then "differ header metadata"
            else if k1 != k2 then "differ marker"
            else if r1 != r2 then s!"differ blocks model={hex r1} impl={hex r2}"
            else "same"
          | .error _, .error _ => if st.sink == implFile then "same" else "differ unparsable"
          | _, _ => "differ header"
    | _, _, _ => "bad-request"
  | _ => "bad-request"

partial def loop (h : IO.FS.Stream) (out : IO.FS.Stream) : IO Unit := do
  let line ← h.getLine
  if line.isEmpty then return ()
  out.putStrLn (respond line)
  loop h out

def main : IO Unit := do
  let out ← IO.getStdout
  loop (← IO.getStdin) out
  out.flush
