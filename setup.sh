#!/bin/sh
# MANIFEST.setup_cmd: build the framework offline from files on disk only.
set -e
cd "$(dirname "$0")"
export CARGO_NET_OFFLINE=true
( cd lean && lake build AvroModel AvroProofs avro_model )
cp /repo/Cargo.lock harness/Cargo.lock
( cd harness && cargo build --offline )
